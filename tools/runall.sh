#!/bin/bash
# usage: runall.sh [tier] [ids...]
TIER=${1:-quick}; shift
IDS=${@:-$(python3 -c "import json;print(' '.join(c['property_id'] for c in json.load(open('/verif/MANIFEST.json'))['checks']))")}
cd /verif
for id in $IDS; do
  s=$(date +%s); ./vcheck $id $TIER > /tmp/runall_$id.log 2>&1; rc=$?; e=$(date +%s)
  echo "$id exit=$rc $((e-s))s $(grep -E '^  paths=' /tmp/runall_$id.log | cut -c1-120)"
  grep -E "INCONCL|ENGINE|^VIOLATION|KNOWN" /tmp/runall_$id.log | head -5
done

#!/usr/bin/env python3
import json
props=[json.loads(l)['id'] for l in open('/verif/properties.jsonl')]
NOTE_COMMON=("Trusted base: the gosx SSA->SMT executor (validated on every run by replaying sampled passing paths and every counterexample natively against the real code), "
 "z3 4.8.12, go/ssa, and the harness/fakes listed in the evidence. Bounded: holds for every input within the stated bounds, nothing is claimed outside them.")
claimed={
"C02":dict(text="Bounded symbolic model checking of the real decoders: for every byte string of each listed length (contents fully symbolic) every exported Decode*/Parse*/Open* function and every accessor of Value/List/Message is executed symbolically; 'a panic is reachable', 'n outside [0,len]' and 'result not inside the input' are solver queries; unsafe reads are checked against the allocation. unsat on every path = holds for all inputs of those lengths.",
  design="§4 C02", technique="SSA symbolic execution + SMT (z3), bounded by input length; native replay of models",
  note=NOTE_COMMON+" Lengths: flat decoders 0..10,12,16..18,32..34 (thorough 0..40); parsers 0..6 (0..9); accessors 0..7 (+9,10,11,16) (thorough 0..10,+). Outside: longer inputs, typed list wrappers with user decode functions, generated struct decoders."),
"C13":dict(text="Bounded symbolic model checking: for every input of length <=L accepted by the real recursive parser, probe/open/re-parse/typed re-read agreement and independence from an arbitrary symbolic prefix (<=3 bytes) are asserted and discharged by z3 over all byte values.",
  design="§4 C13", technique="SSA symbolic execution + SMT (z3), bounded by input and prefix length; native replay of models",
  note=NOTE_COMMON+" L<=6 (thorough 10), prefix 1..3 bytes. Outside: longer inputs/prefixes."),
 "C10":dict(text="Bounded symbolic model checking with unbounded value domain: every scalar encoder/decoder pair is executed symbolically on a full-width symbolic value (all 2^64 etc. bit patterns; floats through the SMT FloatingPoint theory) behind a symbolic buffer prefix; value equality, encoder size = appended bytes = decoder size, and the stored-width x read-width matrix (value iff representable, else error) are discharged by z3.",
  design="§4 C10", technique="SSA symbolic execution + SMT bit-vector/floating-point (z3); full value range, byte-string lengths case-split; native replay of models",
  note=NOTE_COMMON+" Values unbounded (full width). Byte strings/strings: lengths 0,1,2,252..254 (thorough adds 31..33, 251..256, 65534..65537), contents symbolic in first/last 16 bytes. Outside: other lengths; inexact in-range float64->float32 narrowing."),
 "C01":dict(text="Bounded symbolic model checking of writer->parser round trips: value-tree shapes are enumerated (<=3 free nodes + boundary shapes), and inside a shape every scalar kind (symbolic choice), every tag (symbolic uint16, pairwise distinct => all write orders and both table formats), every value (full width) and string contents are symbolic; read-back through typed accessors, field count, absence of any other tag, tag order and exact consumption are assertions discharged by z3. Table kernels push arbitrary sorted tables (all 16-bit tags x 32-bit offsets) through the real encode->decode->lookup.",
  design="§4 C01", technique="SSA symbolic execution + SMT (z3) over enumerated shapes with symbolic tags/kinds/values; native replay of models",
  note=NOTE_COMMON+" Shapes: root scalar (15 kinds); message/list with 0..2 (thorough 3) scalar children; nested message/list shapes; Any/Copy/Merge/Clone; 49 fields; 49/255/256 elements; depth 1/14/15; 64 KiB payload before a field; bytes/strings of length 0..2 elsewhere. Outside: larger trees, other payload lengths, user-supplied encoders."),
 "C08":dict(text="Bounded symbolic model checking, differential: (a) the same symbolic write sequence on a fresh writer and on a writer with a history (completed / abandoned / failed program, then Reset) whose buffer is recycled memory with arbitrary symbolic stale bytes must give byte-identical output; (b) library bytes are compared byte for byte with a reference encoder written in the harness from the pinned layout (literal type codes, big-endian, reverse varints, zig-zag, NUL, sorted tables, big-form rule), shapes enumerated, tags/kinds/values symbolic, plus table kernels over all 16-bit tags x 32-bit offsets and size-class boundary payloads; the library must read reference bytes (incl. absent tags) identically.",
  design="§4 C08", technique="SSA symbolic execution + SMT (z3): differential against an in-harness reference encoder and dirty-vs-fresh writer/buffer; native replay of models",
  note=NOTE_COMMON+" Additional trusted base: the ~200-line reference encoder/decoder in harness/internal/writer/zz_C08_layout.go. Shapes as C01 (<=3 free nodes), payload lengths 252..254/65535/65536 (thorough more), stale buffer 64 bytes (thorough 0/3/64). Outside: larger trees; a frozen golden corpus is not used."),
 "C12":dict(text="Bounded symbolic model checking of call programs: K symbolic steps, each an arbitrary choice among 20 writer operations (fields, elements, nested begin, End/Build on any live or stale handle, Value, Any, Copy, Err, Reset, Free) applied to an arbitrary handle obtained so far, tags/values symbolic; 'a panic is reachable', stickiness and identity of the first error, well-formedness of every successful Build and clean state after Reset are solver-decided assertions on every feasible path.",
  design="§4 C12", technique="SSA symbolic execution + SMT (z3) over symbolic operation sequences; native replay of models",
  note=NOTE_COMMON+" K<=3 full alphabet (thorough 4), K=4 core alphabet (5), six directed prefixes + 2/4 steps (3/5). Outside: longer programs, auto-released writers after release."),
 "C16":dict(text="Bounded symbolic model checking of the dynamic tag-based API across schema versions: writer version = N fields with symbolic distinct tags/kinds/values in any order; reader version = arbitrary symbolic tags: common fields read back unchanged, tags absent from the data read zero with presence false, unknown written fields disturb nothing; Copy/Merge through a writer that knows a symbolic subset preserves the unknown fields.",
  design="§4 C16", technique="SSA symbolic execution + SMT (z3), symbolic tag sets for writer and reader versions; native replay of models",
  note=NOTE_COMMON+" <=2 written fields (thorough 3), 2 reader tags, full-range values. Outside: generated code of two schema versions (compiler pipeline, C05), more fields."),
 "C18":dict(text="Bounded symbolic model checking of the writer pools: (a) inductive recycling step: a writer state with arbitrary field values goes through the state pool and must equal a fresh state in every observable field; (b) symbolic histories of K operations (new owned / acquire pooled / fail midway / build root / Free) over 3 owners sharing writerPool and writerStatePool: no two live owners ever hold the same writer or state, and each owner's result is intact.",
  design="§4 C18", technique="SSA symbolic execution + SMT (z3) over symbolic operation histories with a LIFO model of sync.Pool; native replay with the real sync.Pool",
  note=NOTE_COMMON+" Histories of <=5 operations (thorough 6), 3 owners. Reduced scope: sequential call-order histories only; goroutine hand-off, data races and the race detector are outside; mpx/rpc state pools not covered here."),
}
na={p:"check not yet built (work in progress, see DESIGN.md)" for p in props}
na["C15"]="not applicable to solver-based checking: the parser is a goyacc LALR table interpreter over text/scanner building a pointer-rich tree; with symbolic characters the scanner's rune loops dominate, with symbolic tokens the deciding step would be enumeration, and the oracle would need a second parser (DESIGN.md §4 C15)"
na["C17"]="not applicable: heap allocation is decided by the gc compiler's escape analysis and inlining, not by semantics an SSA->SMT encoding captures; the solver-decidable part (results are views into the caller's buffer) is asserted under C02 (DESIGN.md §4 C17)"
checks=[]
for p in props:
    if p in claimed:
        c=claimed[p]
        checks.append({"property_id":p,"quick_cmd":"./vcheck %s quick"%p,"thorough_cmd":"./vcheck %s thorough"%p,
          "evidence_file":"/verif/evidence/%s.json"%p,"replay_cmd_template":"./vcheck --replay {path}","engine":"gosx",
          "level_claimed":{"category":"model_checking","text":c['text'],"design_ref":c['design']},"level_note":c['note'],"technique":c['technique']})
m={"version":1,
"setup_cmd":"cd /verif/engine && GOFLAGS=-mod=mod GOPROXY=off go build -o ../bin/gosx .",
"hooks":{"guard":"verif","enable":"no hooks in /repo: harnesses are injected with go/packages Overlay (engine) and go test -overlay (native replay); both pass -tags=verif","baseline_off_cmd":"cd /repo && GOFLAGS=-mod=mod GOPROXY=off go test -json -vet=off -count=1 -timeout 25m ./...","source_commits":[],"add_only":True},
"engines":[{"name":"gosx","path":"/verif/engine","serves_properties":sorted(claimed),"kind_free_text":"symbolic executor for go/ssa of /repo's current tree -> SMT-LIB2 bit-vector terms (z3 -in, incremental); path-forking DFS by re-execution; native replay of solver models through go test -overlay"}],
"checks":checks,
"notes":"See DESIGN.md. exit 0 = held within bounds; exit 1 + VIOLATION line = natively reproduced counterexample; exit 2 = inconclusive/engine problem (never reported as success).",
"not_applicable":[{"property_id":p,"reason":na[p]} for p in props if p not in claimed]}
json.dump(m,open('/verif/MANIFEST.json','w'),indent=1)

#!/usr/bin/env python3
# usage: save_seed.py <name> <property> <mutdir> <demo file> <demo dest dir> <detected: yes/no> <checks that catch it> <needs...>
import sys,os,shutil,json,subprocess
name,prop,md,demo,dest,detected,catch=sys.argv[1:8]; needs=' '.join(sys.argv[8:])
d='/verif/seeded/'+name; os.makedirs(d,exist_ok=True)
shutil.copy(os.path.join(md,'patch.diff'),d+'/patch.diff')
shutil.copy(os.path.join(md,demo),d+'/'+demo)
if os.path.exists(os.path.join(md,'notes.md')): shutil.copy(os.path.join(md,'notes.md'),d+'/notes.md')
head=subprocess.check_output(['git','-C','/repo','rev-parse','--short','HEAD']).decode().strip()
meta={"breaks_property":prop,"needs_to_manifest":needs,"demo":{"file":demo,"place_in":dest,"run":"go test -vet=off -count=1 ./"+dest},
"confirmed":{"against_repo_commit":head,"how":"tools/confirm_mut.sh in a scratch worktree: patch applies; suite verdicts equal baseline; demo fails with the patch and passes without",
 "check_run":"tools/mutrun.sh patch.diff %s quick (git apply on /repo, ./vcheck, git checkout)"%prop},
"detected_by_check":detected=="yes","detecting_assertions":catch,"author":"independent sub-agent given only the property text and a scratch worktree"}
json.dump(meta,open(d+'/meta.json','w'),indent=1)
print("saved",d)

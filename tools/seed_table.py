#!/usr/bin/env python3
# prints the markdown table of /verif/seeded (DESIGN.md §7) from the meta.json files
import json,glob,os,re
rows=[]; det=nd=0; ben=0; disc=0
def key(d):
    n=os.path.basename(d); m=re.match(r'(C\d+)-(r2)?m?(\d*)',n); return (n[:3], 'r2' in n, n)
for d in sorted([x for x in glob.glob('/verif/seeded/*') if os.path.isdir(x)],key=key):
    n=os.path.basename(d); m=json.load(open(d+'/meta.json'))
    if m.get('benign'):
        ben+=1; rows.append(f"| {n} | {m['property']} | benign: {'stays quiet' if m.get('expected_verdict','no')=='no' else 'load error (exit 2)'} | {m['what']} | {m['expected']} |"); continue
    if m.get('status')=='discarded':
        disc+=1; rows.append(f"| {n} | {m['breaks_property']} | discarded | {m['reason'][:160]} | |"); continue
    c='yes' if m['detected_by_check'] else 'NO'
    if m['detected_by_check']: det+=1
    else: nd+=1
    rows.append(f"| {n} | {m['breaks_property']} | {c} | {m.get('needs_to_manifest','')} | {m.get('detecting_assertions','')} |")
print("| seed | property | caught | needs | caught by / why not |\n|---|---|---|---|---|")
print("\n".join(rows))
print(f"\nTOTAL valid={det+nd} detected={det} not_detected={nd} benign={ben} discarded={disc}")

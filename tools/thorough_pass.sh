#!/bin/bash
# usage: thorough_pass.sh <budget seconds> <ids...>  -- runs thorough tiers once, sequentially, logging a summary line each
cd /verif
B=$1; shift
for id in "$@"; do
  s=$(date +%s); nice -n 5 ./bin/gosx -check checks/$id.json -tier thorough -no-evidence -budget $B > /tmp/thorough_$id.log 2>&1; rc=$?; e=$(date +%s)
  echo "$id exit=$rc $((e-s))s $(grep -E '^  paths=' /tmp/thorough_$id.log | cut -c1-150)" >> /tmp/thorough_summary2.txt
  grep -E "INCONCL|ENGINE|^VIOLATION" /tmp/thorough_$id.log | head -3 >> /tmp/thorough_summary2.txt
done
echo DONE >> /tmp/thorough_summary2.txt

#!/bin/bash
# usage: mutrun.sh <patch.diff> <ID> [tier]  -- applies the patch to /repo, runs the check, reverts.
set -u
P=$1; ID=$2; TIER=${3:-quick}
cd /repo && git apply $P || { echo "PATCH DOES NOT APPLY"; exit 2; }
cp /verif/evidence/$ID.json /tmp/mutrun_ev_$$.json 2>/dev/null
cd /verif && ./vcheck $ID $TIER > /tmp/mutrun_$$.log 2>&1; RC=$?
[ -f /tmp/mutrun_ev_$$.json ] && mv /tmp/mutrun_ev_$$.json /verif/evidence/$ID.json   # evidence must describe the unchanged tree
cd /repo && git checkout -q -- .
echo "exit=$RC violations=$(grep -c ^VIOLATION /tmp/mutrun_$$.log)"
grep -E "^  violation|INCONCL|ENGINE" /tmp/mutrun_$$.log | cut -c1-300 | sort | uniq -c | sort -rn | head -8
rm -f /tmp/mutrun_$$.log

#!/bin/bash
# usage: c02_prepare.sh <outdir> <tier>
# Builds cmd/spec from /repo's current working tree, runs the real generator on the C05 schema family
# and writes the hostile-bytes harness for the *emitted* struct / enum decoders, message readers and
# typed list wrappers (C02: decoding arbitrary bytes never panics). No by-product checks here (those
# belong to C05): any failure of this step is an inconclusive run of the generated-code part.
set -e
OUT=$1; TIER=${2:-quick}
export GOFLAGS=-mod=mod GOPROXY=off
unset GOSUMDB GOTOOLCHAIN 2>/dev/null || true
(cd /repo && go build -o "$OUT/spec" ./cmd/spec)
python3 /verif/tools/gen_c05.py "$OUT" "$TIER"
mkdir -p "$OUT/gob"
cd "$OUT/schema"
"$OUT/spec" generate --skip-rpc zzc05b "$OUT/gob"
"$OUT/spec" generate --skip-rpc -i . zzc05 "$OUT/go"
rm -f "$OUT/go/zz_C05_harness.go" "$OUT/harnesses.json"
python3 /verif/tools/gen_c02gen.py "$OUT" "$TIER"

#!/bin/bash
# usage: c05_prepare.sh <outdir> <tier>
# Builds cmd/spec from /repo's current working tree, emits the schema family and its harness, and
# runs the real generator on the schemas.
set -e
OUT=$1; TIER=${2:-quick}
export GOFLAGS=-mod=mod GOPROXY=off
unset GOSUMDB GOTOOLCHAIN 2>/dev/null || true
(cd /repo && go build -o "$OUT/spec" ./cmd/spec)
python3 /verif/tools/gen_c05.py "$OUT" "$TIER"
mkdir -p "$OUT/gob"
cd "$OUT/schema"
"$OUT/spec" generate --skip-rpc zzc05b "$OUT/gob"
"$OUT/spec" generate --skip-rpc -i . zzc05 "$OUT/go"
# regenerating from the same sources yields identical files
mkdir -p "$OUT/again"
"$OUT/spec" generate --skip-rpc -i . zzc05 "$OUT/again"
for f in "$OUT"/again/*_generated.go; do cmp -s "$f" "$OUT/go/$(basename "$f")" || { echo "NONDETERMINISTIC OUTPUT: $f"; exit 3; }; done

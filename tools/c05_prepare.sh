#!/bin/bash
# usage: c05_prepare.sh <outdir> <tier>
# Builds cmd/spec from /repo's current working tree, emits the schema family and its harness, and
# runs the real generator on the schemas.
set -e
OUT=$1; TIER=${2:-quick}
export GOFLAGS=-mod=mod GOPROXY=off
unset GOSUMDB GOTOOLCHAIN 2>/dev/null || true
(cd /repo && go build -o "$OUT/spec" ./cmd/spec)
python3 /verif/tools/gen_c05.py "$OUT" "$TIER"
mkdir -p "$OUT/gob"
cd "$OUT/schema"
"$OUT/spec" generate --skip-rpc zzc05b "$OUT/gob"
"$OUT/spec" generate --skip-rpc -i . zzc05 "$OUT/go"
# regenerating from the same sources yields identical files
mkdir -p "$OUT/again"
"$OUT/spec" generate --skip-rpc -i . zzc05 "$OUT/again"
for f in "$OUT"/again/*_generated.go; do cmp -s "$f" "$OUT/go/$(basename "$f")" || { echo "regeneration from the same sources differs: $f"; exit 3; }; done
# ... also when the output directory already holds the files of a larger, earlier version of the schema
mkdir -p "$OUT/small/zzc05" "$OUT/fresh"
awk '/^message Fixed/{p=1} p&&/^}/{print; exit} {if(!p||1)print}' zzc05/a.spec | awk 'BEGIN{keep=1} /^message I16/{keep=0} keep{print}' > "$OUT/small/zzc05/a.spec"
cp -r zzc05b "$OUT/small/"
(cd "$OUT/small" && "$OUT/spec" generate --skip-rpc -i . zzc05 "$OUT/again" && "$OUT/spec" generate --skip-rpc -i . zzc05 "$OUT/fresh")
for f in "$OUT"/fresh/*_generated.go; do cmp -s "$f" "$OUT/again/$(basename "$f")" || { echo "regenerating a smaller schema over existing output differs from generating it into an empty directory: $(basename "$f")"; exit 3; }; done

#!/bin/bash
# usage: confirm_mut.sh <worktree> <mutdir> <demo-file> <dest-pkg-dir (relative)> [test -run regex]
# Confirms in the scratch worktree: patch applies to current /repo HEAD, suite result equals baseline,
# demo fails with the patch and passes without.
set -u
WT=$1; MD=$2; DEMO=$3; DEST=$4; RUN=${5:-.}
export GOFLAGS=-mod=mod GOPROXY=off
cd $WT || exit 2
git checkout -q --detach $(git -C /repo rev-parse HEAD) 2>/dev/null
git checkout -q -- . ; git clean -fdq -e _mut
suite() { go test -vet=off -count=1 ./... 2>&1 | grep -E "^(ok|FAIL|---)" | sed -E 's/\t[0-9.]+s( \[no tests to run\])?$//; s/\(cached\)//' | sort; }
suite > /tmp/suite_base_$$.txt
git apply $MD/patch.diff || { echo "PATCH DOES NOT APPLY"; exit 2; }
suite > /tmp/suite_mut_$$.txt
if diff -q /tmp/suite_base_$$.txt /tmp/suite_mut_$$.txt >/dev/null; then echo "suite: same as baseline"; else echo "suite: DIFFERS"; diff /tmp/suite_base_$$.txt /tmp/suite_mut_$$.txt; fi
cp $MD/$DEMO $DEST/
go test -vet=off -count=1 -run "$RUN" ./$DEST 2>&1 | tail -4 | sed 's/^/  with patch: /'
git checkout -q -- .
go test -vet=off -count=1 -run "$RUN" ./$DEST 2>&1 | tail -2 | sed 's/^/  without patch: /'
rm -f $DEST/$DEMO /tmp/suite_base_$$.txt /tmp/suite_mut_$$.txt

#!/bin/bash
# usage: seedrun.sh [name-glob]   -- re-runs every kept breaking change against its property's quick
# check (git apply on /repo, ./vcheck, git checkout) and compares the verdict with meta.json.
# Sequential: /repo is modified while a seed runs. Output: /tmp/seedrun.tsv
cd /verif
trap 'git -C /repo checkout -q -- . ' EXIT
[ -n "${APPEND:-}" ] || : > /tmp/seedrun.tsv
for d in seeded/${1:-*}/; do
  n=$(basename $d)
  [ -f $d/meta.json ] || continue
  read prop want benign <<< $(python3 -c "
import json;m=json.load(open('$d/meta.json'))
print(m.get('breaks_property') or m.get('property'), 'yes' if m.get('detected_by_check') else 'no', 'benign' if m.get('benign') else ('discarded' if m.get('status')=='discarded' else '-'))")
  [ "$benign" = discarded ] && continue
  [ -f $d/patch.diff ] || continue
  s=$(date +%s)
  out=$(GOSX_NO_XSOLVER=1 tools/mutrun.sh /verif/$d/patch.diff $prop quick 2>&1 | head -1)
  e=$(date +%s)
  rc=$(echo "$out" | sed -E 's/.*exit=([0-9]+).*/\1/')
  verdict=no; [ "$rc" = 1 ] && verdict=yes; [ "$rc" = 2 ] && verdict=inconclusive
  exp=$want; [ "$benign" = benign ] && exp=$(python3 -c "import json;print(json.load(open('$d/meta.json')).get('expected_verdict','no'))")
  flag=OK; [ "$verdict" != "$exp" ] && flag=DIFF
  echo -e "$n\t$prop\t$benign\texpected=$exp\tgot=$verdict\t$((e-s))s\t$flag" | tee -a /tmp/seedrun.tsv
done

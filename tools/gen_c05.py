#!/usr/bin/env python3
"""C05: emits a bounded family of schemas together with the harness that knows their model.

usage: gen_c05.py <outdir> <tier>
  <outdir>/schema/zzc05/*.spec, <outdir>/schema/zzc05b/*.spec   schemas (input of the real generator)
  <outdir>/go/zz_C05_harness.go                                 harness (package zzc05)
  <outdir>/harnesses.json                                       harness entries for the driver
The schema model here is written independently of the compiler's parser/model: field name, kind,
tag are chosen here, rendered to schema text, and the expected Go API (accessor names, tags, wire
types) is derived from the same table.
"""
import json, os, sys

out, tier = sys.argv[1], (sys.argv[2] if len(sys.argv) > 2 else "quick")
PKG = "github.com/basecomplextech/spec/internal/zzc05"
PKGB = "github.com/basecomplextech/spec/internal/zzc05b"

def camel(s):
    parts = [p.lower().title() for p in s.split("_")]
    r = "".join(parts)
    if s.startswith("_"): r = "_" + r
    if s.endswith("_"): r += "_"
    return r

# kind -> (schema type, go type, draw statements (v = name), equality (a,b), dynamic getter, dynamic writer)
def eq(a, b): return f"{a} == {b}"
def eqf(a, b): return f"({a} == {b} || ({a} != {a} && {b} != {b}))"
KINDS = {
 "bool":    ("bool",    "bool",    "{v} := zzverif.Bool()",    eq,  "Bool",    "Bool"),
 "byte":    ("byte",    "byte",    "{v} := zzverif.Byte()",    eq,  "Byte",    "Byte"),
 "int16":   ("int16",   "int16",   "{v} := zzverif.Int16()",   eq,  "Int16",   "Int16"),
 "int32":   ("int32",   "int32",   "{v} := zzverif.Int32()",   eq,  "Int32",   "Int32"),
 "int64":   ("int64",   "int64",   "{v} := zzverif.Int64()",   eq,  "Int64",   "Int64"),
 "uint16":  ("uint16",  "uint16",  "{v} := zzverif.Uint16()",  eq,  "Uint16",  "Uint16"),
 "uint32":  ("uint32",  "uint32",  "{v} := zzverif.Uint32()",  eq,  "Uint32",  "Uint32"),
 "uint64":  ("uint64",  "uint64",  "{v} := zzverif.Uint64()",  eq,  "Uint64",  "Uint64"),
 "float32": ("float32", "float32", "{v} := zzverif.Float32()", eqf, "Float32", "Float32"),
 "float64": ("float64", "float64", "{v} := zzverif.Float64()", eqf, "Float64", "Float64"),
 "bin64":   ("bin64",   "bin.Bin64",  "var {v} bin.Bin64\n\tcopy({v}[:], zzverif.Bytes(8))", eq, "Bin64", "Bin64"),
 "bin128":  ("bin128",  "bin.Bin128", "var {v} bin.Bin128\n\tcopy({v}[0][:], zzverif.Bytes(8))\n\tcopy({v}[1][:], zzverif.Bytes(8))", eq, "Bin128", "Bin128"),
 "bin256":  ("bin256",  "bin.Bin256", "var {v} bin.Bin256\n\tcopy({v}[0][:], zzverif.Bytes(8))\n\tcopy({v}[3][:], zzverif.Bytes(8))", eq, "Bin256", "Bin256"),
 "bytes":   ("bytes",   "[]byte",  "{v} := zzverif.Bytes(2)",  lambda a, b: f"string({a}) == string({b})", "Bytes", "Bytes"),
 "string":  ("string",  "string",  "{v} := zzverif.String(2)", lambda a, b: f"string({a}) == {b}", "String", "String"),
}

# messages: name -> list of (field name, kind, tag); kinds beyond KINDS are handled specially
MESSAGES2 = [
 ("Second", [("k", "byte", 1), ("pt", "struct:Point", 2), ("n", "int32", 300)]),
]
MESSAGES = [
 ("Fixed",  [("b", "bool", 1), ("by", "byte", 255), ("f32", "float32", 256), ("f64", "float64", 65535)]),
 ("I16",    [("a", "int16", 1), ("u", "uint16", 256)]),
 ("I32",    [("a", "int32", 255), ("u", "uint32", 2)]),
 ("I64",    [("a", "int64", 65535), ("u", "uint64", 3)]),
 ("Bins",   [("b64", "bin64", 1), ("b128", "bin128", 2), ("b256", "bin256", 300)]),
 ("Strs",   [("bs", "bytes", 1), ("s", "string", 300)]),
 ("Kw",     [("type", "string", 1), ("message", "bool", 2), ("struct", "byte", 3), ("import", "float32", 4),
             ("options", "bool", 5), ("service", "byte", 6), ("any", "bool", 7), ("created_at", "byte", 8)]),
 ("WithEnum",   [("col", "enum:Color", 7), ("name", "byte", 8)]),
 ("WithStruct", [("pt", "struct:Point", 9), ("after", "byte", 10)]),
 ("WithNested", [("in", "msg:Inner", 1), ("after", "byte", 2)]),
 ("WithLists",  [("li", "list:int32", 1), ("lm", "listmsg:Inner", 256), ("lb", "list:byte", 3)]),
 ("WithImport", [("ext", "imsg:zzc05b.Ext", 1), ("col", "ienum:zzc05b.Shade", 2)]),
]
if tier != "thorough":
    pass

def schema_type(kind):
    if kind in KINDS: return KINDS[kind][0]
    t, _, n = kind.partition(":")
    if t in ("enum", "struct", "msg"): return n
    if t == "list": return "[]" + n
    if t == "listmsg": return "[]" + n
    if t in ("imsg", "ienum"): return "ext." + n.split(".")[1]
    raise SystemExit("kind " + kind)

os.makedirs(f"{out}/schema/zzc05", exist_ok=True)
os.makedirs(f"{out}/schema/zzc05b", exist_ok=True)
os.makedirs(f"{out}/go", exist_ok=True)

spec = [f'import (\n    ext "zzc05b"\n)\n', f'options (\n    go_package="{PKG}"\n)\n',
        "enum Color {\n    None = 0;\n    Red = 1;\n    Max = 2147483647;\n}\n",
        "struct Point {\n    x int32;\n    y int64;\n    f float64;\n    inner Pair;\n}\n",
        "struct Pair {\n    a byte;\n    b uint16;\n}\n",
        "struct Named {\n    id byte;\n    name string;\n    tail uint16;\n}\n",
        "message Inner {\n    v byte 1;\n    w int32 65535;\n}\n"]
for name, fields in MESSAGES:
    lines = [f"    {f} {schema_type(k)} {t};" for f, k, t in fields]
    spec.append("message %s {\n%s\n}\n" % (name, "\n".join(lines)))
open(f"{out}/schema/zzc05/a.spec", "w").write("\n".join(spec))
# a second file of the same package (multi-file package; its name shares the first dot-segment with a.spec)
spec2 = []
for name, fields in MESSAGES2:
    lines = [f"    {f} {schema_type(k)} {t};" for f, k, t in fields]
    spec2.append("message %s {\n%s\n}\n" % (name, "\n".join(lines)))
open(f"{out}/schema/zzc05/a.more.spec", "w").write("\n".join(spec2))
open(f"{out}/schema/zzc05b/b.spec", "w").write(
    f'options (\n    go_package="{PKGB}"\n)\n\nenum Shade {{\n    Zero = 0;\n    Dark = 9;\n}}\n\nmessage Ext {{\n    k byte 2;\n}}\n')

# ---------------------------------------------------------------------------------------------- harness
H = ['// Code generated by /verif/tools/gen_c05.py; DO NOT EDIT.', 'package zzc05', '', 'import (',
     '\t"github.com/basecomplextech/baselibrary/bin"', '\t"github.com/basecomplextech/baselibrary/buffer"',
     '\t"github.com/basecomplextech/spec"', '\t"github.com/basecomplextech/spec/internal/zzc05b"',
     '\t"github.com/basecomplextech/spec/internal/zzverif"', ')', '', 'var _ = bin.Bin64{}', 'var _ = buffer.New', 'var _ = zzc05b.OpenExt', '']
entries = []

def harness(name, fields):
    fn = f"ZZ_C05_{name}"
    L = [f"// {fn}: generated writer -> bytes -> generated reader; the same bytes through the dynamic",
         f"// tag-based API under the schema's tags and wire types; dynamic writer -> generated reader.",
         f"func {fn}() {{"]
    setg, chk, dynr, dynw, dynchk = [], [], [], [], []
    for f, k, t in fields:
        v = "v_" + f
        G = camel(f)
        if k in KINDS:
            st, gt, draw, e, dg, dw = KINDS[k]
            L.append("\t" + draw.format(v=v))
            setg.append(f"\tw.{G}({v})")
            chk.append(f'\tzzverif.Assert(p.Has{G}() && {e("p."+G+"()", v)}, "{name}.{f}: generated getter differs from the written value")')
            dynr.append(f'\tzzverif.Assert(dm.HasField({t}) && {e("dm."+dg+"("+str(t)+")", v)}, "{name}.{f}: not stored under tag {t} as {k}")')
            dynw.append(f"\tzzverif.Assert(dw.Field({t}).{dw}({v}) == nil, \"dynamic write\")")
            dynchk.append(f'\tzzverif.Assert(p2.Has{G}() && {e("p2."+G+"()", v)}, "{name}.{f}: generated getter does not read tag {t} as {k}")')
            continue
        kind, _, tn = k.partition(":")
        if kind == "enum":
            L.append(f"\t{v} := {tn}(zzverif.Int32())")
            setg.append(f"\tw.{G}({v})")
            chk.append(f'\tzzverif.Assert(p.Has{G}() && p.{G}() == {v}, "{name}.{f}: enum getter differs")')
            dynr.append(f'\tzzverif.Assert(dm.Int32({t}) == int32({v}), "{name}.{f}: enum not stored under tag {t} as int32")')
            dynw.append(f"\tzzverif.Assert(dw.Field({t}).Int32(int32({v})) == nil, \"dynamic write\")")
            dynchk.append(f'\tzzverif.Assert(p2.{G}() == {v}, "{name}.{f}: enum getter does not read tag {t}")')
        elif kind == "ienum":
            gn = tn.split(".")[1]
            L.append(f"\t{v} := zzc05b.{gn}(zzverif.Int32())")
            setg.append(f"\tw.{G}({v})")
            chk.append(f'\tzzverif.Assert(p.Has{G}() && p.{G}() == {v}, "{name}.{f}: imported enum getter differs")')
            dynr.append(f'\tzzverif.Assert(dm.Int32({t}) == int32({v}), "{name}.{f}: imported enum not stored under tag {t}")')
            dynw.append(f"\tzzverif.Assert(dw.Field({t}).Int32(int32({v})) == nil, \"dynamic write\")")
            dynchk.append(f'\tzzverif.Assert(p2.{G}() == {v}, "{name}.{f}: imported enum getter does not read tag {t}")')
        elif kind == "struct":
            L.append(f"\t{v} := Point{{X: zzverif.Int32(), Y: zzverif.Int64(), F: zzverif.Float64(), Inner: Pair{{A: zzverif.Byte(), B: zzverif.Uint16()}}}}")
            L.append(f"\tzzverif.Assume({v}.F == {v}.F) // (NaN never equals itself)")
            setg.append(f"\tw.{G}({v})")
            chk.append(f'\tzzverif.Assert(p.Has{G}() && p.{G}() == {v}, "{name}.{f}: struct getter differs")')
            dynr.append(f'\t{{\n\t\tds, _, derr := DecodePoint(dm.FieldRaw({t}))\n\t\tzzverif.Assert(derr == nil && ds == {v}, "{name}.{f}: struct not stored under tag {t}")\n\t}}')
            dynw.append(f"\tzzverif.Assert(spec.WriteField(dw.Field({t}), {v}, EncodePointTo) == nil, \"dynamic write\")")
            dynchk.append(f'\tzzverif.Assert(p2.{G}() == {v}, "{name}.{f}: struct getter does not read tag {t}")')
        elif kind in ("msg", "imsg"):
            if kind == "msg":
                L.append(f"\t{v}_v, {v}_w := zzverif.Byte(), zzverif.Int32()")
                setg.append(f"\t{{\n\t\tiw := w.{G}()\n\t\tiw.V({v}_v)\n\t\tiw.W({v}_w)\n\t\tzzverif.Assert(iw.End() == nil, \"nested end\")\n\t}}")
                chk.append(f'\tzzverif.Assert(p.Has{G}() && p.{G}().V() == {v}_v && p.{G}().W() == {v}_w, "{name}.{f}: nested message getter differs")')
                dynr.append(f'\tzzverif.Assert(dm.Message({t}).Byte(1) == {v}_v && dm.Message({t}).Int32(65535) == {v}_w, "{name}.{f}: nested message not under tag {t}")')
                dynw.append(f"\t{{\n\t\tim := dw.Field({t}).Message()\n\t\tim.Field(1).Byte({v}_v)\n\t\tim.Field(65535).Int32({v}_w)\n\t\tzzverif.Assert(im.End() == nil, \"dynamic nested end\")\n\t}}")
                dynchk.append(f'\tzzverif.Assert(p2.{G}().V() == {v}_v && p2.{G}().W() == {v}_w, "{name}.{f}: nested getter does not read tag {t}")')
            else:
                L.append(f"\t{v}_k := zzverif.Byte()")
                setg.append(f"\t{{\n\t\tiw := w.{G}()\n\t\tiw.K({v}_k)\n\t\tzzverif.Assert(iw.End() == nil, \"nested end\")\n\t}}")
                chk.append(f'\tzzverif.Assert(p.Has{G}() && p.{G}().K() == {v}_k, "{name}.{f}: imported message getter differs")')
                dynr.append(f'\tzzverif.Assert(dm.Message({t}).Byte(2) == {v}_k, "{name}.{f}: imported message not under tag {t}")')
                dynw.append(f"\t{{\n\t\tim := dw.Field({t}).Message()\n\t\tim.Field(2).Byte({v}_k)\n\t\tzzverif.Assert(im.End() == nil, \"dynamic nested end\")\n\t}}")
                dynchk.append(f'\tzzverif.Assert(p2.{G}().K() == {v}_k, "{name}.{f}: imported getter does not read tag {t}")')
        elif kind == "list":
            draw = {"int32": "zzverif.Int32()", "byte": "zzverif.Byte()"}[tn]
            dyg = {"int32": "Int32", "byte": "Byte"}[tn]
            L.append(f"\t{v}_0, {v}_1 := {draw}, {draw}")
            setg.append(f"\t{{\n\t\tlw := w.{G}()\n\t\tzzverif.Assert(lw.Add({v}_0) == nil && lw.Add({v}_1) == nil, \"list add\")\n\t\tzzverif.Assert(lw.End() == nil, \"list end\")\n\t}}")
            chk.append(f'\tzzverif.Assert(p.{G}().Len() == 2 && p.{G}().Get(0) == {v}_0 && p.{G}().Get(1) == {v}_1, "{name}.{f}: list getter differs")')
            dynr.append(f'\tzzverif.Assert(dm.List({t}).Len() == 2 && dm.List({t}).Get(1).{dyg}() == {v}_1, "{name}.{f}: list not under tag {t}")')
            dynw.append(f"\t{{\n\t\tlw := dw.Field({t}).List()\n\t\tlw.{dyg}({v}_0)\n\t\tlw.{dyg}({v}_1)\n\t\tzzverif.Assert(lw.End() == nil, \"dynamic list end\")\n\t}}")
            dynchk.append(f'\tzzverif.Assert(p2.{G}().Len() == 2 && p2.{G}().Get(0) == {v}_0, "{name}.{f}: list getter does not read tag {t}")')
        elif kind == "listmsg":
            L.append(f"\t{v}_v := zzverif.Byte()")
            setg.append(f"\t{{\n\t\tlw := w.{G}()\n\t\te := lw.Add()\n\t\te.V({v}_v)\n\t\tzzverif.Assert(e.End() == nil && lw.End() == nil, \"message list end\")\n\t}}")
            chk.append(f'\tzzverif.Assert(p.{G}().Len() == 1 && p.{G}().Get(0).V() == {v}_v, "{name}.{f}: message list getter differs")')
            dynr.append(f'\tzzverif.Assert(dm.List({t}).Len() == 1 && dm.List({t}).Get(0).Message().Byte(1) == {v}_v, "{name}.{f}: message list not under tag {t}")')
            dynw.append(f"\t{{\n\t\tlw := dw.Field({t}).List()\n\t\tem := lw.Message()\n\t\tem.Field(1).Byte({v}_v)\n\t\tzzverif.Assert(em.End() == nil && lw.End() == nil, \"dynamic message list end\")\n\t}}")
            dynchk.append(f'\tzzverif.Assert(p2.{G}().Len() == 1 && p2.{G}().Get(0).V() == {v}_v, "{name}.{f}: message list getter does not read tag {t}")')
    L.append(f"\tw := New{name}Writer()")
    L += setg
    L.append("\tm, err := w.Build()")
    L.append('\tzzverif.Assert(err == nil, "generated writer build")')
    L.append("\traw := m.Unwrap().Raw()")
    L.append(f"\tp, n, err := Parse{name}(raw)")
    L.append('\tzzverif.Assert(err == nil && n == len(raw), "generated parser consumes the generated bytes")')
    L += chk
    L.append("\tdm := p.Unwrap()")
    L.append(f'\tzzverif.Assert(dm.Fields() == {len(fields)}, "{name}: field count")')
    L += dynr
    L.append("\tdw := spec.NewMessageWriter()")
    L += dynw
    L.append("\tdb, err := dw.Build()")
    L.append('\tzzverif.Assert(err == nil, "dynamic build")')
    L.append(f"\tp2, _, err := Parse{name}(db)")
    L.append('\tzzverif.Assert(err == nil, "generated parser reads dynamic bytes")')
    L += dynchk
    L.append('\tzzverif.Reach("done")')
    L.append("}")
    H.extend(L + [""])
    entries.append({"func": PKG + "." + fn, "params": {"quick": {}}, "reach": ["done"], "unwind": 200,
                    "note": "schema message %s { %s }" % (name, "; ".join(f"{f} {schema_type(k)} {t}" for f, k, t in fields))})

for name, fields in MESSAGES + MESSAGES2:
    harness(name, fields)

# struct and enum codecs
H += ['''// ZZ_C05_StructCodec: generated struct EncodeTo / Decode are inverse and report equal sizes.
func ZZ_C05_StructCodec() {
	s := Point{X: zzverif.Int32(), Y: zzverif.Int64(), F: zzverif.Float64(), Inner: Pair{A: zzverif.Byte(), B: zzverif.Uint16()}}
	zzverif.Assume(s.F == s.F)
	buf := buffer.New()
	n, err := s.EncodeTo(buf)
	zzverif.Assert(err == nil && n == buf.Len(), "struct encode size equals bytes appended")
	var d Point
	n2, err := d.Decode(buf.Bytes())
	zzverif.Assert(err == nil, "struct decode")
	zzverif.Assert(n2 == n, "struct decode size equals encode size")
	zzverif.Assert(d == s, "struct decode(encode(s)) != s")
	d2, n3, err := DecodePoint(buf.Bytes())
	zzverif.Assert(err == nil && n3 == n && d2 == s && OpenPoint(buf.Bytes()) == s, "DecodePoint/OpenPoint")
	zzverif.Reach("done")
}

// ZZ_C05_StructWithString: a struct holding a variable-size field (its header is the sum of the sizes
// the field encoders report).
func ZZ_C05_StructWithString() {
	s := Named{Id: zzverif.Byte(), Name: zzverif.String(zzverif.Param("SL")), Tail: zzverif.Uint16()}
	buf := buffer.New()
	n, err := s.EncodeTo(buf)
	zzverif.Assert(err == nil && n == buf.Len(), "struct encode size equals bytes appended")
	var d Named
	n2, err := d.Decode(buf.Bytes())
	zzverif.Assert(err == nil, "struct decode")
	zzverif.Assert(n2 == n, "struct decode size equals encode size")
	zzverif.Assert(d.Id == s.Id && string(d.Name) == string(s.Name) && d.Tail == s.Tail, "struct decode(encode(s)) != s")
	zzverif.Reach("done")
}

// ZZ_C05_EnumCodec: enum round trip over the full int32 range.
func ZZ_C05_EnumCodec() {
	v := Color(zzverif.Int32())
	buf := buffer.New()
	n, err := EncodeColorTo(buf, v)
	zzverif.Assert(err == nil && n == buf.Len(), "enum encode size")
	r, n2, err := DecodeColor(buf.Bytes())
	zzverif.Assert(err == nil && n2 == n && r == v && OpenColor(buf.Bytes()) == v, "enum decode(encode(v)) != v")
	zzverif.Reach("done")
}
''']
for fn in ("ZZ_C05_StructCodec", "ZZ_C05_EnumCodec"):
    entries.append({"func": PKG + "." + fn, "params": {"quick": {}}, "reach": ["done"], "unwind": 200})
entries.append({"func": PKG + ".ZZ_C05_StructWithString", "params": {"quick": {"SL": [0, 2]}, "thorough": {"SL": [0, 1, 2, 5]}}, "reach": ["done"], "unwind": 200})
open(f"{out}/go/zz_C05_harness.go", "w").write("\n".join(H))
json.dump(entries, open(f"{out}/harnesses.json", "w"), indent=1)

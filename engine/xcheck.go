package main

import (
	"context"
	"fmt"
	"os"
	"os/exec"
	"path/filepath"
	"strings"
	"sync"
	"time"
)

// XSample collects a sample of the queries z3 answered "unsat" (the answers every "holds" verdict and
// every pruned branch rests on) as standalone SMT-LIB scripts; after the exploration they are put to
// two other solvers (z3 5.x and cvc5). A "sat" from either is a disagreement and makes the run
// inconclusive; unknown/timeout of the second solver is counted and not a disagreement.
type XSample struct {
	mu     sync.Mutex
	seen   int64
	stride int64
	cap    int
	files  []string
	serial int
	dir    string
}

func NewXSample(cap int) *XSample {
	dir, err := os.MkdirTemp("", "gosx-x")
	if err != nil {
		return nil
	}
	return &XSample{stride: 1, cap: cap, dir: dir}
}

// offer is called for every unsat answer; it keeps queries at a growing stride so that the sample
// spreads over the whole run whatever its length (when the sample is full every second one is dropped
// and the stride doubles).
func (x *XSample) offer(render func() string) {
	x.mu.Lock()
	x.seen++
	take := x.seen%x.stride == 0
	x.mu.Unlock()
	if !take {
		return
	}
	txt := render()
	x.mu.Lock()
	defer x.mu.Unlock()
	if len(x.files) >= x.cap {
		kept := x.files[:0]
		for i, f := range x.files {
			if i%2 == 0 {
				kept = append(kept, f)
			} else {
				os.Remove(f)
			}
		}
		x.files = kept
		x.stride *= 2
	}
	x.serial++
	name := filepath.Join(x.dir, fmt.Sprintf("q%08d.smt2", x.serial))
	if os.WriteFile(name, []byte(txt), 0o644) == nil {
		x.files = append(x.files, name)
	}
}

// dump renders the solver's current assertion stack as a standalone script.
func (s *Solver) dump() string {
	var sb, as strings.Builder
	declared := map[string]bool{}
	for _, t := range s.stack {
		txt, vars := SMT(t)
		for _, v := range vars {
			if !declared[v.Name] {
				declared[v.Name] = true
				fmt.Fprintf(&sb, "(declare-const %s %s)\n", v.Name, sortOf(v.W))
			}
		}
		as.WriteString("(assert " + txt + ")\n")
	}
	return "(set-logic ALL)\n" + sb.String() + as.String() + "(check-sat)\n"
}

type XResult struct {
	Sampled    int            `json:"queries_sampled"`
	Solvers    []string       `json:"solvers"`
	Answers    map[string]int `json:"answers"`
	Disagree   []string       `json:"disagreements"`
	Errors     []string       `json:"errors,omitempty"`
	TimeS      float64        `json:"time_s"`
	PerQueryMs int            `json:"timeout_ms_per_query"`
}

func (x *XSample) run(workers int, timeoutMs int) *XResult {
	if os.Getenv("GOSX_KEEP_X") == "" { defer os.RemoveAll(x.dir) } else { fmt.Println("xdir", x.dir) }
	res := &XResult{Sampled: len(x.files), Answers: map[string]int{}, PerQueryMs: timeoutMs}
	type sv struct {
		name string
		args []string
	}
	var solvers []sv
	if p, err := exec.LookPath("z3-new"); err == nil {
		solvers = append(solvers, sv{"z3-new " + firstLine(exec.Command(p, "--version")), []string{p, fmt.Sprintf("-t:%d", timeoutMs)}})
	}
	if p, err := exec.LookPath("cvc5"); err == nil {
		solvers = append(solvers, sv{"cvc5 " + firstLine(exec.Command(p, "--version")), []string{p, "--lang=smt2", fmt.Sprintf("--tlimit=%d", timeoutMs)}})
	}
	for _, s := range solvers {
		res.Solvers = append(res.Solvers, s.name)
	}
	t0 := time.Now()
	type job struct {
		f string
		s int
	}
	jobs := make(chan job)
	var mu sync.Mutex
	var wg sync.WaitGroup
	for w := 0; w < workers; w++ {
		wg.Add(1)
		go func() {
			defer wg.Done()
			for j := range jobs {
				if strings.HasPrefix(solvers[j.s].name, "cvc5") {
					// fp.to_ieee_bv is a z3 extension the float encoding uses; cvc5 cannot parse it
					if b, err := os.ReadFile(j.f); err == nil && strings.Contains(string(b), "fp.to_ieee_bv") {
						mu.Lock()
						res.Answers["cvc5:skipped_z3_extension"]++
						mu.Unlock()
						continue
					}
				}
				ctx, cancel := context.WithTimeout(context.Background(), time.Duration(timeoutMs+2000)*time.Millisecond)
				a := append([]string{}, solvers[j.s].args[1:]...)
				out, _ := exec.CommandContext(ctx, solvers[j.s].args[0], append(a, j.f)...).CombinedOutput()
				cancel()
				ans := strings.TrimSpace(string(out))
				if i := strings.IndexByte(ans, '\n'); i >= 0 {
					ans = ans[:i]
				}
				key := strings.Fields(solvers[j.s].name)[0] + ":"
				mu.Lock()
				switch {
				case ans == "unsat":
					res.Answers[key+"unsat"]++
				case ans == "sat":
					res.Answers[key+"sat"]++
					keep := filepath.Join("/verif/replays", "xsolver-"+filepath.Base(j.f))
					os.MkdirAll("/verif/replays", 0o755)
					if b, err := os.ReadFile(j.f); err == nil {
						os.WriteFile(keep, b, 0o644)
					}
					res.Disagree = append(res.Disagree, fmt.Sprintf("%s answers sat where z3 answered unsat: %s", solvers[j.s].name, keep))
				case strings.HasPrefix(ans, "(error"):
					res.Answers[key+"error"]++
					res.Errors = append(res.Errors, trunc(ans, 200))
				default:
					res.Answers[key+"unknown_or_timeout"]++
				}
				mu.Unlock()
			}
		}()
	}
	for _, f := range x.files {
		for s := range solvers {
			jobs <- job{f, s}
		}
	}
	close(jobs)
	wg.Wait()
	res.TimeS = time.Since(t0).Seconds()
	return res
}

func firstLine(c *exec.Cmd) string {
	out, _ := c.CombinedOutput()
	s := strings.TrimSpace(string(out))
	if i := strings.IndexByte(s, '\n'); i >= 0 {
		s = s[:i]
	}
	return s
}

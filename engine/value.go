package main

import (
	"fmt"
	"go/types"

	"golang.org/x/tools/go/ssa"
)

// Value is any engine value:
//   *Term (bool / integer / float bit pattern), *Ptr, *Slice, *Str, *Iface, *Closure, *StructV, *ArrayV,
//   Tuple, *MapV, *ChanV, Poison
type Value interface{}

type Poison struct{ why string }

type Object struct {
	id   int
	root Value // *StructV, *ArrayV or scalar cell content
	typ  types.Type
	ro   bool   // read-only (string data)
	tag  string // debugging / provenance label
}

type Step struct {
	Field int   // struct field index (when Idx == nil)
	Idx   *Term // array index (64-bit) when non-nil
}

type Loc struct {
	Obj  *Object
	Path []Step
}

type Ptr struct {
	Loc
	// window [WinLo, WinHi) of valid indexes for the last (index) step, set when the pointer was
	// derived from a slice element; used as the bound for unsafe pointer arithmetic.
	WinLo, WinHi *Term
	Unsafe       bool
	Fn           *Closure // pointer-to-function hack is not needed; kept nil
}

func (p *Ptr) IsNil() bool { return p == nil || p.Obj == nil }

type Slice struct {
	Base          Loc // location of the backing array (*ArrayV); Obj == nil => nil slice
	Off, Len, Cap *Term
}

type Str struct {
	Base     Loc // location of backing byte array; Obj == nil => empty string
	Off, Len *Term
	Opaque   bool // contents unknown / irrelevant (formatting results)
}

type Iface struct {
	T types.Type // dynamic type; nil => nil interface
	V Value
}

type Closure struct {
	Fn  *ssa.Function
	Env []Value
	// bound method / builtin wrappers
	Intrinsic string
}

type StructV struct{ F []Value }
type ArrayV struct{ E []Value }
type Tuple []Value

type MapV struct {
	id   int
	keys []Value
	vals []Value
	kt   types.Type
	vt   types.Type
}

type ChanV struct {
	id     int
	cap    int
	buf    []Value
	closed bool
	et     types.Type
}

func cloneValue(v Value) Value {
	switch x := v.(type) {
	case *StructV:
		n := &StructV{F: make([]Value, len(x.F))}
		for i, f := range x.F {
			n.F[i] = cloneValue(f)
		}
		return n
	case *ArrayV:
		n := &ArrayV{E: make([]Value, len(x.E))}
		for i, f := range x.E {
			n.E[i] = cloneValue(f)
		}
		return n
	case Tuple:
		n := make(Tuple, len(x))
		for i, f := range x {
			n[i] = cloneValue(f)
		}
		return n
	}
	return v
}

func (e *Exec) newObject(root Value, t types.Type, tag string) *Object {
	e.objSeq++
	return &Object{id: e.objSeq, root: root, typ: t, tag: tag}
}

func isByteLike(t types.Type) bool {
	b, ok := t.Underlying().(*types.Basic)
	return ok && (b.Kind() == types.Uint8 || b.Kind() == types.Int8)
}

// width of a basic type in bits (0 for bool)
func (e *Exec) basicWidth(b *types.Basic) int {
	switch b.Kind() {
	case types.Bool, types.UntypedBool:
		return 0
	case types.Int8, types.Uint8:
		return 8
	case types.Int16, types.Uint16:
		return 16
	case types.Int32, types.Uint32, types.Float32, types.UntypedRune:
		return 32
	case types.Int, types.Uint, types.Int64, types.Uint64, types.Uintptr, types.Float64, types.UntypedInt, types.UntypedFloat:
		return 64
	}
	return -1
}

func isSigned(t types.Type) bool {
	b, ok := t.Underlying().(*types.Basic)
	return ok && b.Info()&types.IsInteger != 0 && b.Info()&types.IsUnsigned == 0
}

func isFloat(t types.Type) bool {
	b, ok := t.Underlying().(*types.Basic)
	return ok && b.Info()&types.IsFloat != 0
}

func isInteger(t types.Type) bool {
	b, ok := t.Underlying().(*types.Basic)
	return ok && b.Info()&types.IsInteger != 0
}

func isString(t types.Type) bool {
	b, ok := t.Underlying().(*types.Basic)
	return ok && b.Info()&types.IsString != 0
}

func isBool(t types.Type) bool {
	b, ok := t.Underlying().(*types.Basic)
	return ok && b.Info()&types.IsBoolean != 0
}

// zero returns the zero value of type t.
func (e *Exec) zero(t types.Type) Value {
	switch u := t.Underlying().(type) {
	case *types.Basic:
		if u.Info()&types.IsString != 0 {
			return &Str{Off: e.c64(0), Len: e.c64(0)}
		}
		if u.Kind() == types.UnsafePointer {
			return &Ptr{}
		}
		if u.Kind() == types.Invalid {
			// go/ssa leaves operands it never reads typed "invalid type" (e.g. the unused index of a range Next)
			return Poison{"value of invalid type"}
		}
		w := e.basicWidth(u)
		if w < 0 {
			panic(unsupported{"zero of basic type " + u.String()})
		}
		return e.tc.Const(w, 0)
	case *types.Pointer:
		return &Ptr{}
	case *types.Slice:
		return &Slice{Off: e.c64(0), Len: e.c64(0), Cap: e.c64(0)}
	case *types.Struct:
		s := &StructV{F: make([]Value, u.NumFields())}
		for i := range s.F {
			s.F[i] = e.zero(u.Field(i).Type())
		}
		return s
	case *types.Array:
		n := int(u.Len())
		a := &ArrayV{E: make([]Value, n)}
		if n > 0 {
			z := e.zero(u.Elem())
			_, comp1 := z.(*StructV)
			_, comp2 := z.(*ArrayV)
			for i := range a.E {
				if comp1 || comp2 {
					a.E[i] = e.zero(u.Elem())
				} else {
					a.E[i] = z
				}
			}
		}
		return a
	case *types.Interface:
		return &Iface{}
	case *types.Signature:
		return (*Closure)(nil)
	case *types.Map:
		return (*MapV)(nil)
	case *types.Chan:
		return (*ChanV)(nil)
	case *types.Tuple:
		tp := make(Tuple, u.Len())
		for i := range tp {
			tp[i] = e.zero(u.At(i).Type())
		}
		return tp
	}
	panic(unsupported{fmt.Sprintf("zero of type %s", t)})
}

func (e *Exec) c64(v int64) *Term { return e.tc.Const(64, uint64(v)) }

// navigate returns the container and the final step for a location, concretising nothing: every
// step except the last must be concrete.
func (e *Exec) cell(l Loc) (get func() Value, set func(Value)) {
	if l.Obj == nil {
		panic("cell of nil location")
	}
	if len(l.Path) == 0 {
		return func() Value { return l.Obj.root }, func(v Value) { l.Obj.root = v }
	}
	var cur Value = l.Obj.root
	for i, st := range l.Path[:len(l.Path)-1] {
		_ = i
		cur = e.stepInto(cur, st)
	}
	last := l.Path[len(l.Path)-1]
	if last.Idx == nil {
		s, ok := cur.(*StructV)
		if !ok {
			panic(unsupported{fmt.Sprintf("field step into %T", cur)})
		}
		return func() Value { return s.F[last.Field] }, func(v Value) { s.F[last.Field] = v }
	}
	a, ok := cur.(*ArrayV)
	if !ok {
		panic(unsupported{fmt.Sprintf("index step into %T", cur)})
	}
	if last.Idx.IsConst() {
		k := int(last.Idx.Val)
		if k < 0 || k >= len(a.E) {
			panic(engineBug{fmt.Sprintf("concrete index %d out of array of %d (object %s)", k, len(a.E), l.Obj.tag)})
		}
		return func() Value { return a.E[k] }, func(v Value) { a.E[k] = v }
	}
	// symbolic index over scalar elements: ite chain
	idx := last.Idx
	return func() Value {
			return e.selectElem(a, idx)
		}, func(v Value) {
			nv, ok := v.(*Term)
			if !ok {
				panic(unsupported{"symbolic-index store of non-scalar"})
			}
			for k := range a.E {
				old, ok := a.E[k].(*Term)
				if !ok {
					panic(unsupported{"symbolic-index store into non-scalar array"})
				}
				a.E[k] = e.tc.Ite(e.tc.Eq(idx, e.c64(int64(k))), nv, old)
			}
		}
}

func (e *Exec) selectElem(a *ArrayV, idx *Term) Value {
	if len(a.E) == 0 {
		panic(engineBug{"select from empty array"})
	}
	lo, hi := 0, len(a.E)-1
	// narrow by cheap bound
	if ub := e.tc.ubound(idx); ub < uint64(hi) {
		hi = int(ub)
	}
	res, ok := a.E[hi].(*Term)
	if !ok {
		panic(unsupported{"symbolic-index load of non-scalar element"})
	}
	for k := hi - 1; k >= lo; k-- {
		el, ok := a.E[k].(*Term)
		if !ok {
			panic(unsupported{"symbolic-index load of non-scalar element"})
		}
		res = e.tc.Ite(e.tc.Eq(idx, e.c64(int64(k))), el, res)
	}
	return res
}

func (e *Exec) stepInto(cur Value, st Step) Value {
	if st.Idx == nil {
		s, ok := cur.(*StructV)
		if !ok {
			panic(unsupported{fmt.Sprintf("field step into %T", cur)})
		}
		return s.F[st.Field]
	}
	a, ok := cur.(*ArrayV)
	if !ok {
		panic(unsupported{fmt.Sprintf("index step into %T", cur)})
	}
	if !st.Idx.IsConst() {
		panic(unsupported{"symbolic index in the middle of a path"})
	}
	k := int(st.Idx.Val)
	if k < 0 || k >= len(a.E) {
		panic(engineBug{fmt.Sprintf("concrete index %d out of array of %d", k, len(a.E))})
	}
	return a.E[k]
}

func (e *Exec) arrayAt(l Loc) *ArrayV {
	get, _ := e.cell(l)
	a, ok := get().(*ArrayV)
	if !ok {
		panic(unsupported{fmt.Sprintf("slice base is %T, not array", get())})
	}
	return a
}

func extend(p []Step, s Step) []Step {
	n := make([]Step, len(p)+1)
	copy(n, p)
	n[len(p)] = s
	return n
}

func sameLoc(a, b Loc) (same bool, decidable bool) {
	if a.Obj != b.Obj {
		return false, true
	}
	if len(a.Path) != len(b.Path) {
		return false, true
	}
	for i := range a.Path {
		x, y := a.Path[i], b.Path[i]
		if (x.Idx == nil) != (y.Idx == nil) {
			return false, true
		}
		if x.Idx == nil {
			if x.Field != y.Field {
				return false, true
			}
		} else {
			if x.Idx != y.Idx {
				if x.Idx.IsConst() && y.Idx.IsConst() {
					return false, true
				}
				return false, false
			}
		}
	}
	return true, true
}

package main

import (
	"fmt"
	"go/types"
	"strings"

	"golang.org/x/tools/go/ssa"
)

const zzPkg = "github.com/basecomplextech/spec/internal/zzverif."

var intrinsicNames = map[string]bool{
	"fmt.Errorf": true, "fmt.Sprintf": true, "fmt.Sprint": true, "fmt.Sprintln": true,
	"fmt.Printf": true, "fmt.Println": true, "fmt.Print": true, "fmt.Fprintf": true,
	"strconv.Itoa": true, "strconv.FormatInt": true, "strconv.FormatUint": true, "strconv.Quote": true,
	"math.Float32bits": true, "math.Float32frombits": true, "math.Float64bits": true, "math.Float64frombits": true,
	"strings.Clone": true, "bytes.Clone": true,
	"bytes.IndexByte": true, "internal/bytealg.IndexByte": true, "internal/bytealg.IndexByteString": true, "strings.IndexByte": true,
	"internal/bytealg.Count": true, "internal/bytealg.CountString": true,
	"(*sync.Pool).Get": true, "(*sync.Pool).Put": true,
	"(*sync.Mutex).Lock": true, "(*sync.Mutex).Unlock": true, "(*sync.Mutex).TryLock": true,
	"(*sync.RWMutex).Lock": true, "(*sync.RWMutex).Unlock": true, "(*sync.RWMutex).RLock": true, "(*sync.RWMutex).RUnlock": true,
	"(*sync.Once).Do":   true,
	"runtime.Gosched":   true,
	"runtime.KeepAlive": true,
	"runtime/debug.Stack": true,
	"time.Now":          true, "time.Since": true, "time.Sleep": true, "time.After": true,
	"(*sync.WaitGroup).Add": true, "(*sync.WaitGroup).Done": true, "(*sync.WaitGroup).Wait": true,
	"math/rand/v2.IntN": true, "math/rand/v2.Int": true, "math/rand.Intn": true,
	"os.Getenv": true,
	"errors.Is": true,
	"internal/bytealg.MakeNoZero": true,
	"internal/abi.NoEscape": true, "(*strings.Builder).copyCheck": true, "internal/abi.Escape": true,
}

func isIntrinsic(name string, fn *ssa.Function) bool {
	if intrinsicNames[name] {
		return true
	}
	if strings.HasPrefix(name, zzPkg) {
		return true
	}
	if strings.HasPrefix(name, "sync/atomic.") && fn != nil && fn.Signature.Recv() == nil && len(fn.Blocks) == 0 {
		return true
	}
	return false
}

func (e *Exec) opaqueStr() *Str {
	return &Str{Opaque: true, Off: e.c64(0), Len: e.internalLen()}
}

func (e *Exec) opaqueError() Value {
	pkg := e.prog.ImportedPackage("errors")
	if pkg == nil {
		panic(unsupported{"package errors not loaded"})
	}
	tn := pkg.Type("errorString")
	if tn == nil {
		panic(unsupported{"errors.errorString not found"})
	}
	st := tn.Type()
	o := e.newObject(&StructV{F: []Value{e.opaqueStr()}}, st, "opaque error")
	return &Iface{T: types.NewPointer(st), V: &Ptr{Loc: Loc{Obj: o}}}
}

func locKey(p *Ptr) string {
	var sb strings.Builder
	fmt.Fprintf(&sb, "%d", p.Obj.id)
	for _, s := range p.Path {
		if s.Idx != nil {
			fmt.Fprintf(&sb, "[%d]", s.Idx.Val)
		} else {
			fmt.Fprintf(&sb, ".%d", s.Field)
		}
	}
	return sb.String()
}

func (e *Exec) intrinsic(name string, args []Value, fn *ssa.Function, fr *frame) Value {
	tc := e.tc
	if strings.HasPrefix(name, "builtin:") {
		return e.builtin(strings.TrimPrefix(name, "builtin:"), args, nil, fr)
	}
	if strings.HasPrefix(name, zzPkg) {
		return e.zz(strings.TrimPrefix(name, zzPkg), args, fn)
	}
	if strings.HasPrefix(name, "sync/atomic.") {
		return e.atomicOp(strings.TrimPrefix(name, "sync/atomic."), args, fn)
	}
	switch name {
	case "fmt.Errorf":
		return e.opaqueError()
	case "fmt.Sprintf":
		if r, ok := e.concreteSprintf(args); ok {
			return r
		}
		return e.opaqueStr()
	case "fmt.Sprint", "fmt.Sprintln", "strconv.Itoa", "strconv.FormatInt", "strconv.FormatUint", "strconv.Quote":
		return e.opaqueStr()
	case "fmt.Printf", "fmt.Println", "fmt.Print", "fmt.Fprintf":
		return Tuple{e.c64(0), &Iface{}}
	case "os.Getenv":
		return e.strLit("")
	case "errors.Is":
		return e.errorsIs(args[0], args[1], fr, 0)
	case "internal/bytealg.MakeNoZero":
		n := e.concretize(args[0].(*Term), 0, e.job.MaxAlloc)
		return e.makeSlice(types.Typ[types.Uint8], e.c64(n), n, "MakeNoZero")
	case "internal/abi.NoEscape", "internal/abi.Escape":
		return args[0]
	case "(*strings.Builder).copyCheck":
		return nil
	case "math.Float32bits", "math.Float32frombits", "math.Float64bits", "math.Float64frombits":
		return args[0]
	case "strings.Clone":
		s := args[0].(*Str)
		if s.Opaque || s.Base.Obj == nil {
			return s
		}
		n := e.concretize(s.Len, 0, e.job.MaxAlloc)
		if n == 0 {
			return &Str{Off: e.c64(0), Len: e.c64(0)}
		}
		a := &ArrayV{E: make([]Value, n)}
		for i := int64(0); i < n; i++ {
			a.E[i] = e.strBytes(s, e.c64(i))
		}
		o := e.newObject(a, nil, "strings.Clone")
		o.ro = true
		return &Str{Base: Loc{Obj: o}, Off: e.c64(0), Len: e.c64(n)}
	case "bytes.Clone":
		s := args[0].(*Slice)
		if s.Base.Obj == nil {
			return s
		}
		n := e.concretize(s.Len, 0, e.job.MaxAlloc)
		et := fn.Signature.Results().At(0).Type().Underlying().(*types.Slice).Elem()
		d := e.makeSlice(et, e.c64(n), n, "bytes.Clone")
		if n > 0 {
			src, dst := e.arrayAt(s.Base), e.arrayAt(d.Base)
			for i := int64(0); i < n; i++ {
				dst.E[i] = e.elemAt(src, tc.Add(s.Off, e.c64(i)))
			}
		}
		return d
	case "bytes.IndexByte", "internal/bytealg.IndexByte", "internal/bytealg.IndexByteString", "strings.IndexByte":
		var base Loc
		var off, ln *Term
		switch x := args[0].(type) {
		case *Slice:
			base, off, ln = x.Base, x.Off, x.Len
		case *Str:
			if x.Opaque {
				panic(unsupported{"IndexByte of opaque string"})
			}
			base, off, ln = x.Base, x.Off, x.Len
		}
		n := e.concretize(ln, 0, e.job.MaxAlloc)
		d := args[1].(*Term)
		res := e.c64(-1)
		if n > 0 {
			a := e.arrayAt(base)
			for i := n - 1; i >= 0; i-- {
				b := e.elemAt(a, tc.Add(off, e.c64(i))).(*Term)
				res = tc.Ite(tc.Eq(b, d), e.c64(i), res)
			}
		}
		return res
	case "internal/bytealg.Count", "internal/bytealg.CountString":
		var base Loc
		var off, ln *Term
		switch x := args[0].(type) {
		case *Slice:
			base, off, ln = x.Base, x.Off, x.Len
		case *Str:
			if x.Opaque {
				panic(unsupported{"Count of opaque string"})
			}
			base, off, ln = x.Base, x.Off, x.Len
		}
		n := e.concretize(ln, 0, e.job.MaxAlloc)
		d := args[1].(*Term)
		res := e.c64(0)
		if n > 0 {
			a := e.arrayAt(base)
			for i := int64(0); i < n; i++ {
				b := e.elemAt(a, tc.Add(off, e.c64(i))).(*Term)
				res = tc.Add(res, tc.Ite(tc.Eq(b, d), e.c64(1), e.c64(0)))
			}
		}
		return res
	case "(*sync.Pool).Get":
		p := e.ptrOf(args[0])
		key := p.Obj
		items := e.poolItems[key]
		if len(items) > 0 {
			v := items[len(items)-1]
			e.poolItems[key] = items[:len(items)-1]
			return v
		}
		st := p.Obj.typ
		_ = st
		get, _ := e.cell(p.Loc)
		sv := get().(*StructV)
		// find field "New"
		pt := fn.Signature.Recv().Type().(*types.Pointer).Elem().Underlying().(*types.Struct)
		for i := 0; i < pt.NumFields(); i++ {
			if pt.Field(i).Name() == "New" {
				nf, _ := sv.F[i].(*Closure)
				if nf == nil {
					return &Iface{}
				}
				return e.callValue(nf, nil, fr)
			}
		}
		panic(engineBug{"sync.Pool has no New field"})
	case "(*sync.Pool).Put":
		p := e.ptrOf(args[0])
		v := args[1]
		if ifc, ok := v.(*Iface); ok && ifc.T == nil {
			return nil
		}
		e.poolPut(p.Obj, v)
		return nil
	case "(*sync.Mutex).Lock", "(*sync.RWMutex).Lock":
		k := locKey(e.ptrOf(args[0]))
		if e.mutexes[k] != 0 {
			panic(&goPanic{kind: "deadlock", site: e.lastSite, msg: "mutex locked twice on one sequential path"})
		}
		e.mutexes[k] = 1
		return nil
	case "(*sync.Mutex).TryLock":
		k := locKey(e.ptrOf(args[0]))
		if e.mutexes[k] != 0 {
			return tc.False
		}
		e.mutexes[k] = 1
		return tc.True
	case "(*sync.Mutex).Unlock", "(*sync.RWMutex).Unlock":
		k := locKey(e.ptrOf(args[0]))
		if e.mutexes[k] != 1 {
			panic(&goPanic{kind: "unlock", site: e.lastSite, msg: "unlock of unlocked mutex"})
		}
		e.mutexes[k] = 0
		return nil
	case "(*sync.RWMutex).RLock":
		k := locKey(e.ptrOf(args[0]))
		if e.mutexes[k] == 1 {
			panic(&goPanic{kind: "deadlock", site: e.lastSite, msg: "rlock of write-locked mutex on one sequential path"})
		}
		e.mutexes[k] += 2
		return nil
	case "(*sync.RWMutex).RUnlock":
		k := locKey(e.ptrOf(args[0]))
		if e.mutexes[k] < 2 {
			panic(&goPanic{kind: "unlock", site: e.lastSite, msg: "runlock of unlocked mutex"})
		}
		e.mutexes[k] -= 2
		return nil
	case "(*sync.Once).Do":
		p := e.ptrOf(args[0])
		k := "once:" + locKey(p)
		if e.mutexes[k] != 0 {
			return nil
		}
		e.mutexes[k] = 1
		return e.callValue(args[1], nil, fr)
	case "(*sync.WaitGroup).Add", "(*sync.WaitGroup).Done", "(*sync.WaitGroup).Wait":
		return nil
	case "runtime.Gosched", "runtime.KeepAlive", "time.Sleep":
		return nil
	case "runtime/debug.Stack":
		return &Slice{Off: e.c64(0), Len: e.c64(0), Cap: e.c64(0)}
	case "time.Now":
		return e.zero(fn.Signature.Results().At(0).Type())
	case "time.Since":
		return e.internalVar(64)
	case "time.After":
		// a timer that has already fired: time passes arbitrarily fast in a sequential run
		ct := fn.Signature.Results().At(0).Type().Underlying().(*types.Chan)
		e.objSeq++
		return &ChanV{id: e.objSeq, cap: 1, et: ct.Elem(), buf: []Value{e.zero(ct.Elem())}}
	case "math/rand/v2.IntN", "math/rand.Intn":
		n := args[0].(*Term)
		e.guard(tc.Slt(tc.Const(n.W, 0), n), "explicit", "invalid argument to IntN")
		v := e.fresh("u64", 64)
		e.assume(tc.Ult(v, n))
		return v
	case "math/rand/v2.Int":
		v := e.fresh("u64", 64)
		e.assume(tc.Sle(e.c64(0), v))
		return v
	}
	panic(unsupported{"intrinsic " + name})
}

func (e *Exec) poolPut(pool *Object, v Value) {
	e.poolItems[pool] = append(e.poolItems[pool], v)
}

func (e *Exec) atomicOp(name string, args []Value, fn *ssa.Function) Value {
	tc := e.tc
	switch {
	case strings.HasPrefix(name, "Load"):
		return e.load(e.ptrOf(args[0]), nil)
	case strings.HasPrefix(name, "Store"):
		e.store(e.ptrOf(args[0]), args[1])
		return nil
	case strings.HasPrefix(name, "Add"):
		p := e.ptrOf(args[0])
		old := e.load(p, nil).(*Term)
		nv := tc.Add(old, args[1].(*Term))
		e.store(p, nv)
		return nv
	case strings.HasPrefix(name, "And"), strings.HasPrefix(name, "Or"):
		p := e.ptrOf(args[0])
		old := e.load(p, nil).(*Term)
		var nv *Term
		if strings.HasPrefix(name, "And") {
			nv = tc.And(old, args[1].(*Term))
		} else {
			nv = tc.Or(old, args[1].(*Term))
		}
		e.store(p, nv)
		return old
	case strings.HasPrefix(name, "Swap"):
		p := e.ptrOf(args[0])
		old := e.load(p, nil)
		e.store(p, args[1])
		return old
	case strings.HasPrefix(name, "CompareAndSwap"):
		p := e.ptrOf(args[0])
		old := e.load(p, nil)
		eq := e.equal(old, args[1], nil)
		if e.branch(eq) {
			e.store(p, args[2])
			return tc.True
		}
		return tc.False
	}
	panic(unsupported{"sync/atomic." + name})
}

// ---------------------------------------------------------------------------------------------
// builtins

func (e *Exec) builtin(name string, args []Value, cc *ssa.CallCommon, fr *frame) Value {
	tc := e.tc
	switch name {
	case "len":
		switch x := args[0].(type) {
		case *Slice:
			return x.Len
		case *Str:
			return x.Len
		case *ArrayV:
			return e.c64(int64(len(x.E)))
		case *Ptr:
			return e.c64(int64(len(e.arrayAt(x.Loc).E)))
		case *MapV:
			if x == nil {
				return e.c64(0)
			}
			return e.c64(int64(len(x.keys)))
		case *ChanV:
			if x == nil {
				return e.c64(0)
			}
			return e.c64(int64(len(x.buf)))
		}
	case "cap":
		switch x := args[0].(type) {
		case *Slice:
			return x.Cap
		case *ArrayV:
			return e.c64(int64(len(x.E)))
		case *Ptr:
			return e.c64(int64(len(e.arrayAt(x.Loc).E)))
		case *ChanV:
			if x == nil {
				return e.c64(0)
			}
			return e.c64(int64(x.cap))
		}
	case "append":
		return e.appendOp(args, cc)
	case "copy":
		return e.copyOp(args[0].(*Slice), args[1])
	case "panic":
		panic(&goPanic{kind: "explicit", val: args[0], site: e.lastSite, msg: e.describe(args[0])})
	case "recover":
		for f := len(e.panicStack) - 1; f >= 0; f-- {
			pf := e.panicStack[f]
			if pf.panicking != nil {
				gp := pf.panicking
				pf.panicking = nil
				if gp.val != nil {
					return gp.val
				}
				// runtime error: an opaque error value
				return e.opaqueError()
			}
			break
		}
		return &Iface{}
	case "min", "max":
		r := args[0].(*Term)
		var t types.Type
		if cc != nil {
			t = cc.Args[0].Type()
		}
		for _, a := range args[1:] {
			y := a.(*Term)
			var lt *Term
			if t != nil && isFloat(t) {
				panic(unsupported{"float min/max"})
			}
			if t != nil && !isSigned(t) {
				lt = tc.Ult(y, r)
			} else {
				lt = tc.Slt(y, r)
			}
			if name == "max" {
				lt = tc.BNot(lt)
				// y >= r -> take y (ties irrelevant for ints)
			}
			r = tc.Ite(lt, y, r)
		}
		return r
	case "delete":
		m, _ := args[0].(*MapV)
		if m != nil {
			e.mapDelete(m, args[1])
		}
		return nil
	case "close":
		c, _ := args[0].(*ChanV)
		if c == nil {
			panic(&goPanic{kind: "explicit", site: e.lastSite, msg: "close of nil channel"})
		}
		if c.closed {
			panic(&goPanic{kind: "explicit", site: e.lastSite, msg: "close of closed channel"})
		}
		c.closed = true
		return nil
	case "print", "println":
		return nil
	case "Add": // unsafe.Add
		p := args[0].(*Ptr)
		if p.IsNil() {
			panic(unsupported{"unsafe.Add on nil"})
		}
		off := e.to64(args[1].(*Term), types.Typ[types.Int])
		if cc != nil {
			off = e.to64(args[1].(*Term), cc.Args[1].Type())
		}
		if len(p.Path) == 0 || p.Path[len(p.Path)-1].Idx == nil {
			panic(unsupported{"unsafe.Add on a pointer that is not an array element"})
		}
		base := Loc{Obj: p.Obj, Path: p.Path[:len(p.Path)-1]}
		a := e.arrayAt(base)
		if len(a.E) > 0 {
			if t, ok := a.E[0].(*Term); !ok || t.W != 8 {
				panic(unsupported{"unsafe.Add over non-byte elements"})
			}
		}
		idx := tc.Add(p.Path[len(p.Path)-1].Idx, off)
		np := &Ptr{Loc: Loc{Obj: p.Obj, Path: extend(base.Path, Step{Idx: idx})}, WinLo: p.WinLo, WinHi: p.WinHi, Unsafe: true}
		return np
	case "String": // unsafe.String(ptr *byte, len)
		p := args[0].(*Ptr)
		ln := e.to64(args[1].(*Term), types.Typ[types.Int])
		if p.IsNil() {
			return &Str{Off: e.c64(0), Len: e.c64(0)}
		}
		last := p.Path[len(p.Path)-1]
		if last.Idx == nil {
			panic(unsupported{"unsafe.String on non-element pointer"})
		}
		return &Str{Base: Loc{Obj: p.Obj, Path: p.Path[:len(p.Path)-1]}, Off: last.Idx, Len: ln}
	case "SliceData":
		s := args[0].(*Slice)
		if s.Base.Obj == nil {
			return &Ptr{}
		}
		return &Ptr{Loc: Loc{Obj: s.Base.Obj, Path: extend(s.Base.Path, Step{Idx: s.Off})}, WinLo: s.Off, WinHi: tc.Add(s.Off, s.Len), Unsafe: true}
	case "StringData":
		s := args[0].(*Str)
		if s.Base.Obj == nil {
			return &Ptr{}
		}
		return &Ptr{Loc: Loc{Obj: s.Base.Obj, Path: extend(s.Base.Path, Step{Idx: s.Off})}, WinLo: s.Off, WinHi: tc.Add(s.Off, s.Len), Unsafe: true}
	case "Slice": // unsafe.Slice(ptr, len)
		p := args[0].(*Ptr)
		ln := e.to64(args[1].(*Term), types.Typ[types.Int])
		if p.IsNil() {
			return &Slice{Off: e.c64(0), Len: e.c64(0), Cap: e.c64(0)}
		}
		last := p.Path[len(p.Path)-1]
		if last.Idx == nil {
			panic(unsupported{"unsafe.Slice on non-element pointer"})
		}
		return &Slice{Base: Loc{Obj: p.Obj, Path: p.Path[:len(p.Path)-1]}, Off: last.Idx, Len: ln, Cap: ln}
	case "clear":
		switch x := args[0].(type) {
		case *MapV:
			if x != nil {
				x.keys, x.vals = nil, nil
			}
			return nil
		}
	}
	panic(unsupported{"builtin " + name + fmt.Sprintf(" %T", args[0])})
}

func growCap(old, need int64) int64 {
	if need > 2*old {
		return need
	}
	if old < 256 {
		if old == 0 {
			return need
		}
		return 2 * old
	}
	c := old
	for c < need {
		c += (c + 3*256) / 4
	}
	return c
}

func (e *Exec) appendOp(args []Value, cc *ssa.CallCommon) Value {
	tc := e.tc
	s := args[0].(*Slice)
	var srcLen *Term
	var srcElem func(i int64) Value
	switch src := args[1].(type) {
	case *Slice:
		srcLen = src.Len
		if src.Base.Obj != nil {
			a := e.arrayAt(src.Base)
			srcElem = func(i int64) Value { return cloneValue(e.elemAt(a, tc.Add(src.Off, e.c64(i)))) }
		}
	case *Str:
		srcLen = src.Len
		if src.Opaque {
			panic(unsupported{"append of opaque string"})
		}
		srcElem = func(i int64) Value { return e.strBytes(src, e.c64(i)) }
	default:
		panic(unsupported{fmt.Sprintf("append of %T", args[1])})
	}
	n2 := e.concretize(srcLen, 0, e.job.MaxAlloc)
	if n2 == 0 {
		return s
	}
	// read source elements first (aliasing)
	elems := make([]Value, n2)
	for i := int64(0); i < n2; i++ {
		elems[i] = srcElem(i)
	}
	fits := tc.Sle(tc.Add(s.Len, e.c64(n2)), s.Cap)
	if s.Base.Obj != nil && e.branch(fits) {
		for i := int64(0); i < n2; i++ {
			idx := tc.Add(tc.Add(s.Off, s.Len), e.c64(i))
			idx = e.concreteIfComposite(s.Base, idx)
			p := &Ptr{Loc: Loc{Obj: s.Base.Obj, Path: extend(s.Base.Path, Step{Idx: idx})}}
			e.store(p, elems[i])
		}
		return &Slice{Base: s.Base, Off: s.Off, Len: tc.Add(s.Len, e.c64(n2)), Cap: s.Cap}
	}
	l := e.concretize(s.Len, 0, e.job.MaxAlloc)
	oc := e.concretize(s.Cap, 0, e.job.MaxAlloc)
	nc := growCap(oc, l+n2)
	if nc > e.job.MaxAlloc {
		panic(unsupported{"append beyond MaxAlloc"})
	}
	var et types.Type
	if cc != nil {
		et = cc.Args[0].Type().Underlying().(*types.Slice).Elem()
	} else {
		panic(unsupported{"append without static type"})
	}
	d := e.makeSlice(et, e.c64(l+n2), nc, "append@"+e.lastSite)
	dst := e.arrayAt(d.Base)
	if l > 0 {
		src := e.arrayAt(s.Base)
		for i := int64(0); i < l; i++ {
			dst.E[i] = cloneValue(e.elemAt(src, tc.Add(s.Off, e.c64(i))))
		}
	}
	for i := int64(0); i < n2; i++ {
		dst.E[l+i] = elems[i]
	}
	return d
}

func (e *Exec) copyOp(dst *Slice, srcv Value) Value {
	tc := e.tc
	var srcLen *Term
	var srcElem func(i int64) Value
	switch src := srcv.(type) {
	case *Slice:
		srcLen = src.Len
		if src.Base.Obj != nil {
			a := e.arrayAt(src.Base)
			srcElem = func(i int64) Value { return cloneValue(e.elemAt(a, tc.Add(src.Off, e.c64(i)))) }
		}
	case *Str:
		srcLen = src.Len
		if src.Opaque {
			panic(unsupported{"copy from opaque string"})
		}
		srcElem = func(i int64) Value { return e.strBytes(src, e.c64(i)) }
	}
	nt := tc.Ite(tc.Slt(dst.Len, srcLen), dst.Len, srcLen)
	n := e.concretize(nt, 0, e.job.MaxAlloc)
	if n == 0 {
		return e.c64(0)
	}
	elems := make([]Value, n)
	for i := int64(0); i < n; i++ {
		elems[i] = srcElem(i)
	}
	for i := int64(0); i < n; i++ {
		idx := tc.Add(dst.Off, e.c64(i))
		idx = e.concreteIfComposite(dst.Base, idx)
		p := &Ptr{Loc: Loc{Obj: dst.Base.Obj, Path: extend(dst.Base.Path, Step{Idx: idx})}}
		e.store(p, elems[i])
	}
	return e.c64(n)
}

// ---------------------------------------------------------------------------------------------
// zzverif

func (e *Exec) zz(name string, args []Value, fn *ssa.Function) Value {
	tc := e.tc
	switch name {
	case "Param":
		s, ok := e.concreteString(args[0].(*Str))
		if !ok {
			panic(engineBug{"Param name not constant"})
		}
		v, ok := e.job.Params[s]
		if !ok {
			panic(engineBug{"harness asks for undeclared param " + s})
		}
		return e.c64(int64(v))
	case "Bool":
		v := e.fresh("bool", 8)
		e.assume(tc.Ult(v, tc.Const(8, 2)))
		return tc.Eq(v, tc.Const(8, 1))
	case "Byte", "Uint8", "Int8":
		return e.fresh("u8", 8)
	case "Uint16", "Int16":
		return e.fresh("u16", 16)
	case "Uint32", "Int32", "Float32":
		return e.fresh("u32", 32)
	case "Uint64", "Int64", "Int", "Float64":
		return e.fresh("u64", 64)
	case "Choice":
		n := args[0].(*Term)
		v := e.fresh("u64", 64)
		e.assume(tc.Ult(v, n))
		return v
	case "Bytes", "String":
		nt := args[0].(*Term)
		n := int(e.concretize(nt, 0, e.job.MaxAlloc))
		a := &ArrayV{E: e.freshBytes(n)}
		o := e.newObject(a, nil, "zzverif."+name)
		if name == "String" {
			o.ro = true
			return &Str{Base: Loc{Obj: o}, Off: e.c64(0), Len: e.c64(int64(n))}
		}
		return &Slice{Base: Loc{Obj: o}, Off: e.c64(0), Len: e.c64(int64(n)), Cap: e.c64(int64(n))}
	case "BytesSparse":
		nt, kt := args[0].(*Term), args[1].(*Term)
		if !nt.IsConst() || !kt.IsConst() {
			panic(engineBug{"zzverif.BytesSparse with symbolic length"})
		}
		n, k := int(nt.Val), int(kt.Val)
		var a *ArrayV
		if n <= 2*k {
			a = &ArrayV{E: e.freshBytes(n)}
		} else {
			sym := e.freshBytes(2 * k)
			a = &ArrayV{E: make([]Value, n)}
			for i := 0; i < n; i++ {
				a.E[i] = tc.Const(8, uint64(byte(i*7+3)))
			}
			copy(a.E[:k], sym[:k])
			copy(a.E[n-k:], sym[k:])
		}
		o := e.newObject(a, nil, "zzverif.BytesSparse")
		return &Slice{Base: Loc{Obj: o}, Off: e.c64(0), Len: e.c64(int64(n)), Cap: e.c64(int64(n))}
	case "Symbolic":
		return tc.True
	case "Virtual":
		n := args[0].(*Term)
		if e.branch(tc.Slt(n, e.c64(0))) {
			panic(pathEnd{"assume-false"})
		}
		o := e.newObject(&ArrayV{}, nil, "zzverif.Virtual")
		return &Slice{Base: Loc{Obj: o}, Off: e.c64(0), Len: n, Cap: n}
	case "Fill":
		s := args[0].(*Slice)
		n := e.concretize(s.Len, 0, e.job.MaxAlloc)
		vals := e.freshBytes(int(n))
		if n > 0 {
			a := e.arrayAt(s.Base)
			for i := int64(0); i < n; i++ {
				idx := tc.Add(s.Off, e.c64(i))
				if !idx.IsConst() {
					panic(unsupported{"Fill with symbolic offset"})
				}
				a.E[idx.Val] = vals[i]
			}
		}
		return nil
	case "Assume":
		c := args[0].(*Term)
		if c.IsFalse() {
			panic(pathEnd{"assume-false"})
		}
		if c.IsTrue() {
			return nil
		}
		// decision slot so that re-execution stays aligned
		if e.pos < len(e.prefix) {
			e.pos++
			e.decisions = append(e.decisions, 1)
			e.assume(c)
			return nil
		}
		e.pos++
		a := e.solver.Check(e.pc, c)
		if a == Unknown {
			e.inconcl = true
		}
		if a == Unsat {
			panic(pathEnd{"assume-false"})
		}
		e.decisions = append(e.decisions, 1)
		e.assume(c)
		return nil
	case "Assert":
		c := args[0].(*Term)
		label, _ := e.concreteString(args[1].(*Str))
		e.stats.Asserts++
		if c.IsTrue() {
			return nil
		}
		if c.IsFalse() || !e.branch(c) {
			panic(assertFail{label})
		}
		return nil
	case "Within", "WithinStr":
		b := args[1].(*Slice)
		var sBase Loc
		var sOff, sLen *Term
		if name == "Within" {
			x := args[0].(*Slice)
			sBase, sOff, sLen = x.Base, x.Off, x.Len
		} else {
			x := args[0].(*Str)
			sBase, sOff, sLen = x.Base, x.Off, x.Len
		}
		empty := tc.Eq(sLen, e.c64(0))
		if sBase.Obj == nil {
			return empty
		}
		same, dec := sameLoc(sBase, b.Base)
		if !dec || !same {
			return empty
		}
		inside := tc.BAnd(tc.Sle(b.Off, sOff), tc.Sle(tc.Add(sOff, sLen), tc.Add(b.Off, b.Len)))
		return tc.BOr(empty, inside)
	case "Reach":
		label, _ := e.concreteString(args[0].(*Str))
		e.reached[label] = true
		return nil
	case "Unsupported":
		what, _ := e.concreteString(args[0].(*Str))
		panic(unsupported{"harness: " + what})
	case "Observe":
		label, _ := e.concreteString(args[0].(*Str))
		ifc := args[1].(*Iface)
		e.observes = append(e.observes, Obs{Label: label, V: ifc.V})
		return nil
	}
	panic(unsupported{"zzverif." + name})
}

// ---------------------------------------------------------------------------------------------
// maps (concrete or term-comparable keys)

func (e *Exec) mapFind(m *MapV, k Value) int {
	for i, mk := range m.keys {
		eq := e.equal(mk, k, m.kt)
		if e.branch(eq) {
			return i
		}
	}
	return -1
}

func (e *Exec) mapUpdate(m *MapV, k, v Value) {
	i := e.mapFind(m, k)
	if i >= 0 {
		m.vals[i] = cloneValue(v)
		return
	}
	m.keys = append(m.keys, cloneValue(k))
	m.vals = append(m.vals, cloneValue(v))
}

func (e *Exec) mapDelete(m *MapV, k Value) {
	i := e.mapFind(m, k)
	if i >= 0 {
		m.keys = append(append([]Value{}, m.keys[:i]...), m.keys[i+1:]...)
		m.vals = append(append([]Value{}, m.vals[:i]...), m.vals[i+1:]...)
	}
}

func (e *Exec) lookup(fr *frame, in *ssa.Lookup) Value {
	x := e.get(fr, in.X)
	switch m := x.(type) {
	case *MapV:
		k := e.get(fr, in.Index)
		vt := in.X.Type().Underlying().(*types.Map).Elem()
		i := -1
		if m != nil {
			i = e.mapFind(m, k)
		}
		var v Value
		if i >= 0 {
			v = cloneValue(m.vals[i])
		} else {
			v = e.zero(vt)
		}
		if in.CommaOk {
			return Tuple{v, e.tc.Bool(i >= 0)}
		}
		return v
	case *Str:
		idx := e.to64(e.get(fr, in.Index).(*Term), in.Index.Type())
		e.guard(e.tc.BAnd(e.tc.Sle(e.c64(0), idx), e.tc.Slt(idx, m.Len)), "index", "index out of range (string)")
		if m.Opaque {
			panic(unsupported{"index of opaque string"})
		}
		return e.strBytes(m, idx)
	}
	panic(unsupported{fmt.Sprintf("lookup in %T", x)})
}

// concreteSprintf evaluates fmt.Sprintf natively when the format and every argument are concrete
// plain strings or integers (no Stringer / error / composite arguments); anything else stays opaque.
func (e *Exec) concreteSprintf(args []Value) (Value, bool) {
	f, ok := args[0].(*Str)
	if !ok {
		return nil, false
	}
	format, ok := e.concreteString(f)
	if !ok {
		return nil, false
	}
	var goArgs []interface{}
	if sl, ok := args[1].(*Slice); ok && sl.Base.Obj != nil {
		if !sl.Len.IsConst() || !sl.Off.IsConst() {
			return nil, false
		}
		a := e.arrayAt(sl.Base)
		for i := 0; i < int(sl.Len.Val); i++ {
			ifc, ok := a.E[int(sl.Off.Val)+i].(*Iface)
			if !ok || ifc.T == nil {
				return nil, false
			}
			if _, named := ifc.T.(*types.Named); named && types.NewMethodSet(ifc.T).Len() > 0 {
				return nil, false // may implement Stringer / error
			}
			b, isBasic := ifc.T.Underlying().(*types.Basic)
			if !isBasic {
				return nil, false
			}
			switch v := ifc.V.(type) {
			case *Str:
				cs, ok := e.concreteString(v)
				if !ok {
					return nil, false
				}
				goArgs = append(goArgs, cs)
			case *Term:
				if !v.IsConst() || b.Info()&types.IsInteger == 0 {
					return nil, false
				}
				if b.Info()&types.IsUnsigned != 0 {
					goArgs = append(goArgs, v.Val)
				} else {
					goArgs = append(goArgs, v.SVal())
				}
			default:
				return nil, false
			}
		}
	}
	return e.strLit(fmt.Sprintf(format, goArgs...)), true
}

type rangeIter struct {
	m    *MapV
	keys []Value
	vals []Value
	i    int
	str  *Str
}

func (e *Exec) rangeInit(x Value, t types.Type) Value {
	switch v := x.(type) {
	case *MapV:
		it := &rangeIter{m: v}
		if v != nil {
			it.keys = append(it.keys, v.keys...)
			it.vals = append(it.vals, v.vals...)
		}
		return it
	case *Str:
		// ASCII strings of concrete length only: byte i is rune i (a byte >= 0x80 leaves the subset)
		if v.Opaque {
			panic(unsupported{"range over opaque string"})
		}
		n := e.concretize(v.Len, 0, e.job.MaxAlloc)
		it := &rangeIter{str: v}
		for i := int64(0); i < n; i++ {
			b := e.strBytes(v, e.c64(i))
			if ascii := e.tc.Ult(b, e.tc.Const(8, 0x80)); !ascii.IsTrue() && !e.branch(ascii) {
				panic(unsupported{"range over a string with a possibly non-ASCII byte"})
			}
			it.keys = append(it.keys, e.c64(i))
			it.vals = append(it.vals, e.tc.ZExt(b, 32))
		}
		return it
	}
	panic(unsupported{fmt.Sprintf("range over %T", x)})
}

func (e *Exec) rangeNext(itv Value, in *ssa.Next) Value {
	it := itv.(*rangeIter)
	// insertion order iteration (Go's order is unspecified; harness fakes must not depend on it)
	for it.i < len(it.keys) {
		k, v := it.keys[it.i], it.vals[it.i]
		it.i++
		return Tuple{e.tc.True, k, cloneValue(v)}
	}
	tt := in.Type().(*types.Tuple)
	return Tuple{e.tc.False, e.zero(tt.At(1).Type()), e.zero(tt.At(2).Type())}
}

// ---------------------------------------------------------------------------------------------
// goroutines, channels, select (sequential models)

func (e *Exec) goStmt(fr *frame, in *ssa.Go) {
	// Goroutines are not modelled: the spawned call is recorded and not run (sequential kernels).
	e.spawned = append(e.spawned, e.site(fr, in))
}

func (e *Exec) chanSend(fr *frame, cv Value, v Value) {
	c, _ := cv.(*ChanV)
	if c == nil {
		panic(blocked{site: e.lastSite, msg: "send on nil channel blocks forever"})
	}
	if c.closed {
		panic(&goPanic{kind: "explicit", site: e.lastSite, msg: "send on closed channel"})
	}
	if len(c.buf) >= c.cap {
		panic(blocked{site: e.lastSite, msg: "send on full channel blocks (no other goroutine is modelled)"})
	}
	c.buf = append(c.buf, v)
}

func (e *Exec) chanRecv(fr *frame, cv Value, commaOk bool) Value {
	c, _ := cv.(*ChanV)
	if c == nil {
		panic(blocked{site: e.lastSite, msg: "receive on nil channel blocks forever"})
	}
	if len(c.buf) > 0 {
		v := c.buf[0]
		c.buf = c.buf[1:]
		if commaOk {
			return Tuple{v, e.tc.True}
		}
		return v
	}
	if c.closed {
		z := e.zero(c.et)
		if commaOk {
			return Tuple{z, e.tc.False}
		}
		return z
	}
	panic(blocked{site: e.lastSite, msg: "receive on empty channel blocks (no other goroutine is modelled)"})
}

func (e *Exec) selectStmt(fr *frame, in *ssa.Select) Value {
	// result tuple: (index int, recvOk bool, r_0 T_0, ... r_n-1 T_n-1)
	tt := in.Type().(*types.Tuple)
	mk := func(idx int, ok bool, recvIdx int, rv Value) Value {
		res := make(Tuple, tt.Len())
		res[0] = e.c64(int64(idx))
		res[1] = e.tc.Bool(ok)
		for i := 2; i < tt.Len(); i++ {
			res[i] = e.zero(tt.At(i).Type())
		}
		if recvIdx >= 0 {
			res[2+recvIdx] = rv
		}
		return res
	}
	// collect ready cases
	type ready struct {
		idx     int
		recvIdx int
	}
	var rs []ready
	ri := 0
	for i, st := range in.States {
		c, _ := e.get(fr, st.Chan).(*ChanV)
		if st.Dir == types.RecvOnly {
			if c != nil && (len(c.buf) > 0 || c.closed) {
				rs = append(rs, ready{i, ri})
			}
			ri++
		} else {
			if c != nil && (c.closed || len(c.buf) < c.cap) {
				rs = append(rs, ready{i, -1})
			}
		}
	}
	if len(rs) == 0 {
		if !in.Blocking {
			return mk(-1, false, -1, nil)
		}
		panic(blocked{site: e.site(fr, in), msg: "select blocks: no case ready (no other goroutine is modelled)"})
	}
	// nondeterministic choice among ready cases
	pick := 0
	if len(rs) > 1 {
		v := e.fresh("u64", 64)
		e.assume(e.tc.Ult(v, e.c64(int64(len(rs)))))
		pick = int(e.concretize(v, 0, int64(len(rs)-1)))
	}
	r := rs[pick]
	st := in.States[r.idx]
	c := e.get(fr, st.Chan).(*ChanV)
	if st.Dir == types.RecvOnly {
		if len(c.buf) > 0 {
			v := c.buf[0]
			c.buf = c.buf[1:]
			return mk(r.idx, true, r.recvIdx, v)
		}
		return mk(r.idx, false, r.recvIdx, e.zero(c.et))
	}
	if c.closed {
		panic(&goPanic{kind: "explicit", site: e.site(fr, in), msg: "send on closed channel"})
	}
	c.buf = append(c.buf, e.get(fr, st.Send))
	return mk(r.idx, false, -1, nil)
}

// errorsIs implements errors.Is without reflection: identity, an Is method, Unwrap() error.
func (e *Exec) errorsIs(errv, targetv Value, fr *frame, depth int) Value {
	tc := e.tc
	err, _ := errv.(*Iface)
	target, _ := targetv.(*Iface)
	if err == nil || err.T == nil || target == nil || target.T == nil {
		return tc.Bool((err == nil || err.T == nil) && (target == nil || target.T == nil))
	}
	if depth > 16 {
		panic(unsupported{"errors.Is: chain too long"})
	}
	if types.Identical(err.T, target.T) {
		if types.Comparable(err.T) {
			if e.branch(e.equal(err.V, target.V, err.T)) {
				return tc.True
			}
		}
	}
	ms := e.prog.MethodSets.MethodSet(err.T)
	for i := 0; i < ms.Len(); i++ {
		sel := ms.At(i)
		if sel.Obj().Name() == "Is" {
			if fn := e.prog.MethodValue(sel); fn != nil && fn.Signature.Params().Len() == 1 && fn.Signature.Results().Len() == 1 {
				r := e.callFn(fn, []Value{err.V, target}, nil, fr)
				if rt, ok := r.(*Term); ok && e.branch(rt) {
					return tc.True
				}
			}
		}
	}
	for i := 0; i < ms.Len(); i++ {
		sel := ms.At(i)
		if sel.Obj().Name() == "Unwrap" {
			fn := e.prog.MethodValue(sel)
			if fn == nil || fn.Signature.Params().Len() != 0 || fn.Signature.Results().Len() != 1 {
				continue
			}
			if _, isSlice := fn.Signature.Results().At(0).Type().Underlying().(*types.Slice); isSlice {
				panic(unsupported{"errors.Is: Unwrap() []error"})
			}
			r := e.callFn(fn, []Value{err.V}, nil, fr)
			return e.errorsIs(r, targetv, fr, depth+1)
		}
	}
	return tc.False
}

package main

import (
	"encoding/hex"
	"encoding/json"
	"fmt"
	"go/types"
	"math/rand"
	"os"
	"os/exec"
	"path/filepath"
	"sort"
	"strings"
	"sync"
	"time"

	"golang.org/x/tools/go/packages"
	"golang.org/x/tools/go/ssa"
	"golang.org/x/tools/go/ssa/ssautil"
)

// repoDir is the tree under check. GOSX_REPO redirects it to a scratch worktree for experiments; the
// registered commands never set it.
var repoDir = func() string {
	if d := os.Getenv("GOSX_REPO"); d != "" {
		return d
	}
	return "/repo"
}()
const modPath = "github.com/basecomplextech/spec"

// ---------------------------------------------------------------------------------------------
// check specification

type TierInts map[string][]int // param name -> values

type HarnessSpec struct {
	Func      string              `json:"func"`   // fully qualified: <pkgpath>.<Name>
	Params    map[string]TierInts `json:"params"` // tier -> param -> values
	Unwind    int                 `json:"unwind"`
	MaxSteps  int64               `json:"max_steps"`
	MaxAlloc  int64               `json:"max_alloc"`
	Reach     []string            `json:"reach"`
	Overrides map[string]string   `json:"overrides"` // callee full name -> harness function full name
	Tiers     []string            `json:"tiers"`     // tiers in which this harness runs (default: both)
	Note      string              `json:"note"`
	Validate  map[string]int      `json:"validate"` // tier -> number of passing paths replayed natively
}

type CheckSpec struct {
	Property    string        `json:"property"`
	Packages    []string      `json:"packages"`
	Harnesses   []HarnessSpec `json:"harnesses"`
	Assumptions []string      `json:"assumptions"`
	Fakes       []string      `json:"fakes"`
	Bounds      string        `json:"bounds"`
	Outside     string        `json:"outside"`
	TimeoutMs   map[string]int `json:"solver_timeout_ms"`
	Prepare     *PrepareSpec   `json:"prepare"`
	Level       string         `json:"level"` // evidence level (default model_checking)
}

// PrepareSpec describes a step run before loading: a command that writes Go files (emitted by the
// repository's own tools from its current tree, plus a generated harness) into an output directory;
// sub-directories of it are overlaid onto package directories of /repo.
type PrepareSpec struct {
	Cmd       string            `json:"cmd"`       // invoked as: cmd <outdir> <tier>
	Overlays  map[string]string `json:"overlays"`  // outdir subdir -> /repo relative package dir
	Harnesses string            `json:"harnesses"` // JSON file (in outdir) with additional harness entries
	// Soft: the emitted code is only a vehicle for this property (C02 over emitted decoders): a failing
	// prepare step or emitted code that does not compile is an inconclusive run, not a violation.
	Soft bool `json:"soft"`
}

type KnownFinding struct {
	Property string `json:"property"`
	Status   string `json:"status"` // known | fixed
	Harness  string `json:"harness,omitempty"`
	Outcome  string `json:"outcome,omitempty"` // prefix of the outcome key
	Region   string `json:"region,omitempty"`
	What     string `json:"what"`
	Commit   string `json:"commit,omitempty"`
}

// ---------------------------------------------------------------------------------------------

type Job struct {
	H         *HarnessSpec
	Fn        *ssa.Function
	Params    map[string]int
	Unwind    int
	MaxSteps  int64
	MaxAlloc  int64
	overrides map[string]*ssa.Function
	id        int
}

type PathResult struct {
	Job      *Job
	Outcome  string
	Script   *Script
	Regions  []string
	Reached  map[string]bool
	Decs     int
	Inconcl  bool
	Notes    []string
	HasModel bool
}

type Script struct {
	Harness string         `json:"harness"`
	Params  map[string]int `json:"params"`
	Draws   []ScriptDraw   `json:"draws"`
	Expect  string         `json:"expect"`
	Obs     []string       `json:"obs"`
}

type ScriptDraw struct {
	K string `json:"k"`
	V string `json:"v,omitempty"`
	N int    `json:"n,omitempty"`
}

type workItem struct {
	job    *Job
	prefix []int64
}

type Driver struct {
	spec    *CheckSpec
	tier    string
	seed    int64
	prog    *ssa.Program
	pkgs    []*packages.Package
	overlay map[string][]byte
	ovFiles map[string]string // virtual path -> real path
	workers int
	verbose bool
	solverBin string
	timeoutMs int

	mu        sync.Mutex
	queue     []workItem
	idle      int
	active    int
	cond      *sync.Cond
	results   map[*Job]*JobAgg
	stats     Stats
	maxPaths  int
	aborted   bool
	xs        *XSample
	xres      *XResult
	funcsSeen map[string]bool
	buildMu   sync.Mutex
	start     time.Time
	budget    time.Duration
	prepDir   string
}

type JobAgg struct {
	Paths     int
	Outcomes  map[string]int
	Examples  map[string][]*PathResult // violating outcome key -> examples
	OkSamples []*PathResult
	Reached   map[string]bool
	Inconcl   bool
	Unsupp    map[string]int
}

func isViolation(outcome string) bool {
	return strings.HasPrefix(outcome, "assert:") || strings.HasPrefix(outcome, "panic:") || strings.HasPrefix(outcome, "blocked:")
}

func isEngineProblem(outcome string) bool {
	return strings.HasPrefix(outcome, "unsupported:") || strings.HasPrefix(outcome, "enginebug:") || strings.HasPrefix(outcome, "unwind:")
}

// ---------------------------------------------------------------------------------------------
// loading

func harnessOverlay(property string) (map[string][]byte, map[string]string, error) {
	ov := map[string][]byte{}
	files := map[string]string{}
	root := "/verif/harness"
	err := filepath.Walk(root, func(p string, info os.FileInfo, err error) error {
		if err != nil || info.IsDir() || !strings.HasSuffix(p, ".go") {
			return err
		}
		rel, _ := filepath.Rel(root, p)
		base := filepath.Base(p)
		if strings.HasPrefix(base, "zz_") && !strings.HasPrefix(base, "zz_common") &&
			!strings.HasPrefix(base, "zz_"+property+"_") && !strings.HasPrefix(base, "zz_"+property+".") {
			return nil
		}
		data, err := os.ReadFile(p)
		if err != nil {
			return err
		}
		virt := filepath.Join(repoDir, rel)
		if strings.HasPrefix(rel, "_deps/") {
			// a file added to a package of a dependency module (read-only module cache): the path
			// below _deps is the import path of the package
			virt, err = depVirtualPath(strings.TrimPrefix(filepath.Dir(rel), "_deps/"), base)
			if err != nil {
				return err
			}
		}
		ov[virt] = data
		files[virt] = p
		return nil
	})
	return ov, files, err
}

func depVirtualPath(importPath, base string) (string, error) {
	cmd := exec.Command("go", "list", "-f", "{{.Dir}}", importPath)
	cmd.Dir = repoDir
	cmd.Env = goEnv()
	out, err := cmd.Output()
	if err != nil {
		return "", fmt.Errorf("go list %s: %v", importPath, err)
	}
	return filepath.Join(strings.TrimSpace(string(out)), base), nil
}

func goEnv() []string {
	env := os.Environ()
	out := env[:0:0]
	for _, kv := range env {
		if strings.HasPrefix(kv, "GOFLAGS=") || strings.HasPrefix(kv, "GOPROXY=") || strings.HasPrefix(kv, "GOSUMDB=") ||
			strings.HasPrefix(kv, "GOTOOLCHAIN=") || strings.HasPrefix(kv, "GOWORK=") {
			continue
		}
		out = append(out, kv)
	}
	return append(out, "GOFLAGS=-mod=mod", "GOPROXY=off", "GOWORK=off", "GODEBUG=goindex=0") // goindex=0: overlay files added to module-cache packages are otherwise ignored
}

// prepViolation is a property violation detected concretely by the prepare step or by the type
// checker on the emitted code (not by a solver query); it is reproduced natively before it is reported.
type prepViolation struct{ msg string }

func (p *prepViolation) Error() string { return p.msg }

func (d *Driver) prepare(ov map[string][]byte, files map[string]string) error {
	p := d.spec.Prepare
	if p == nil {
		return nil
	}
	dir, err := os.MkdirTemp("", "gosx-prepare-")
	if err != nil {
		return err
	}
	d.prepDir = dir
	out, err := execOutput(p.Cmd, dir, d.tier)
	if err != nil {
		if ee, ok := err.(*exec.ExitError); ok && ee.ExitCode() == 3 && !p.Soft {
			// the prepare step's own concrete by-product check failed (e.g. regeneration differs)
			return &prepViolation{msg: trunc(out, 3000)}
		}
		return fmt.Errorf("prepare step failed: %v\n%s", err, trunc(out, 3000))
	}
	for sub, rel := range p.Overlays {
		matches, _ := filepath.Glob(filepath.Join(dir, sub, "*.go"))
		for _, m := range matches {
			data, err := os.ReadFile(m)
			if err != nil {
				return err
			}
			virt := filepath.Join(repoDir, rel, filepath.Base(m))
			ov[virt] = data
			files[virt] = m
		}
	}
	if p.Harnesses != "" {
		data, err := os.ReadFile(filepath.Join(dir, p.Harnesses))
		if err != nil {
			return err
		}
		var hs []HarnessSpec
		if err := json.Unmarshal(data, &hs); err != nil {
			return err
		}
		d.spec.Harnesses = append(d.spec.Harnesses, hs...)
	}
	return nil
}

func (d *Driver) load() error {
	ov, files, err := harnessOverlay(d.spec.Property)
	if err != nil {
		return err
	}
	if err := d.prepare(ov, files); err != nil {
		return err
	}
	d.overlay, d.ovFiles = ov, files
	cfg := &packages.Config{
		Mode: packages.NeedName | packages.NeedFiles | packages.NeedCompiledGoFiles | packages.NeedImports |
			packages.NeedDeps | packages.NeedTypes | packages.NeedSyntax | packages.NeedTypesInfo | packages.NeedTypesSizes | packages.NeedModule,
		Dir:        repoDir,
		Env:        goEnv(),
		Overlay:    ov,
		BuildFlags: []string{"-tags=verif"},
	}
	pats := append([]string{}, d.spec.Packages...)
	pkgs, err := packages.Load(cfg, pats...)
	if err != nil {
		return err
	}
	var errs []string
	packages.Visit(pkgs, nil, func(p *packages.Package) {
		for _, e := range p.Errors {
			if strings.HasPrefix(p.PkgPath, modPath) {
				errs = append(errs, e.Error())
			}
		}
	})
	if len(errs) > 0 {
		if d.spec.Prepare != nil && !d.spec.Prepare.Soft {
			// the emitted code does not type-check against the harness generated from the same schema
			// model: reproduce with the native compiler before reporting
			if msg, bad := d.nativeBuildFails(); bad {
				return &prepViolation{msg: "emitted code does not provide the API declared by the schema / does not compile:\n" + msg}
			}
		}
		return fmt.Errorf("load errors (harness does not compile against the current tree?):\n  %s", strings.Join(errs, "\n  "))
	}
	prog, _ := ssautil.AllPackages(pkgs, ssa.InstantiateGenerics)
	tb := time.Now()
	prog.Build() // everything up front: lazy building from several workers would race
	if os.Getenv("GOSX_DEBUG") != "" {
		fmt.Fprintf(os.Stderr, "ssa build: %.1fs\n", time.Since(tb).Seconds())
	}
	d.prog = prog
	d.pkgs = pkgs
	return nil
}

// nativeBuildFails type-checks the overlaid packages of the prepare step with the real compiler.
func (d *Driver) nativeBuildFails() (string, bool) {
	tmp, err := os.MkdirTemp("", "gosx-build-")
	if err != nil {
		return "", false
	}
	defer os.RemoveAll(tmp)
	data, _ := json.Marshal(map[string]interface{}{"Replace": d.ovFiles})
	ovJSON := filepath.Join(tmp, "overlay.json")
	os.WriteFile(ovJSON, data, 0o644)
	var pkgs []string
	for _, rel := range d.spec.Prepare.Overlays {
		pkgs = append(pkgs, "./"+rel)
	}
	sort.Strings(pkgs)
	args := append([]string{"vet", "-tags=verif", "-overlay", ovJSON}, pkgs...)
	args[0] = "build"
	args = append([]string{"build", "-tags=verif", "-overlay", ovJSON, "-o", os.DevNull}, pkgs...)
	cmd := exec.Command("go", args...)
	cmd.Dir = repoDir
	cmd.Env = goEnv()
	out, err := cmd.CombinedOutput()
	if err != nil {
		return trunc(string(out), 3000), true
	}
	return "", false
}

func (d *Driver) findFunc(full string) (*ssa.Function, error) {
	i := strings.LastIndex(full, ".")
	if i < 0 {
		return nil, fmt.Errorf("bad function name %s", full)
	}
	pkgPath, name := full[:i], full[i+1:]
	for _, p := range d.prog.AllPackages() {
		if p.Pkg.Path() == pkgPath {
			fn := p.Func(name)
			if fn == nil {
				return nil, fmt.Errorf("function %s not found in %s", name, pkgPath)
			}
			return fn, nil
		}
	}
	return nil, fmt.Errorf("package %s not loaded", pkgPath)
}

// ---------------------------------------------------------------------------------------------
// exploration

func cartesian(params TierInts) []map[string]int {
	keys := make([]string, 0, len(params))
	for k := range params {
		keys = append(keys, k)
	}
	sort.Strings(keys)
	res := []map[string]int{{}}
	for _, k := range keys {
		var next []map[string]int
		for _, m := range res {
			for _, v := range params[k] {
				n := map[string]int{}
				for a, b := range m {
					n[a] = b
				}
				n[k] = v
				next = append(next, n)
			}
		}
		res = next
	}
	return res
}

func (d *Driver) makeJobs() ([]*Job, error) {
	var jobs []*Job
	for hi := range d.spec.Harnesses {
		h := &d.spec.Harnesses[hi]
		if len(h.Tiers) > 0 {
			ok := false
			for _, t := range h.Tiers {
				if t == d.tier {
					ok = true
				}
			}
			if !ok {
				continue
			}
		}
		if only := os.Getenv("GOSX_ONLY"); only != "" && !strings.Contains(h.Func, only) {
			continue
		}
		fn, err := d.findFunc(h.Func)
		if err != nil {
			return nil, err
		}
		ovr := map[string]*ssa.Function{}
		for callee, repl := range h.Overrides {
			rf, err := d.findFunc(repl)
			if err != nil {
				return nil, err
			}
			ovr[callee] = rf
		}
		tp := h.Params[d.tier]
		if tp == nil {
			tp = h.Params["quick"]
		}
		for _, pm := range cartesian(tp) {
			j := &Job{H: h, Fn: fn, Params: pm, Unwind: h.Unwind, MaxSteps: h.MaxSteps, MaxAlloc: h.MaxAlloc, overrides: ovr, id: len(jobs)}
			if j.Unwind == 0 {
				j.Unwind = 64
			}
			if j.MaxSteps == 0 {
				j.MaxSteps = 2_000_000
			}
			if j.MaxAlloc == 0 {
				j.MaxAlloc = 1 << 17
			}
			jobs = append(jobs, j)
		}
	}
	return jobs, nil
}

func (d *Driver) explore(jobs []*Job) {
	d.results = map[*Job]*JobAgg{}
	d.cond = sync.NewCond(&d.mu)
	d.funcsSeen = map[string]bool{}
	for _, j := range jobs {
		d.results[j] = &JobAgg{Outcomes: map[string]int{}, Examples: map[string][]*PathResult{}, Reached: map[string]bool{}, Unsupp: map[string]int{}}
		d.queue = append(d.queue, workItem{job: j})
	}
	var wg sync.WaitGroup
	for w := 0; w < d.workers; w++ {
		wg.Add(1)
		go func(id int) {
			defer wg.Done()
			d.worker(id)
		}(w)
	}
	wg.Wait()
}

func (d *Driver) take() (workItem, bool) {
	d.mu.Lock()
	defer d.mu.Unlock()
	for {
		if d.aborted {
			d.queue = nil
		}
		if len(d.queue) > 0 {
			it := d.queue[0]
			d.queue = d.queue[1:]
			d.active++
			return it, true
		}
		if d.active == 0 {
			d.cond.Broadcast()
			return workItem{}, false
		}
		d.idle++
		d.cond.Wait()
		d.idle--
	}
}

func (d *Driver) worker(id int) {
	st := &Stats{FuncsSeen: map[string]bool{}}
	solver, err := NewSolver(d.solverBin, d.timeoutMs, st)
	if err != nil {
		fmt.Fprintln(os.Stderr, "cannot start solver:", err)
		os.Exit(2)
	}
	defer solver.Close()
	solver.xs = d.xs
	tc := NewTermCtx()
	rng := rand.New(rand.NewSource(d.seed + int64(id)))
	for {
		it, ok := d.take()
		if !ok {
			break
		}
		local := []workItem{it}
		for len(local) > 0 {
			if d.budget > 0 && time.Since(d.start) > d.budget {
				d.mu.Lock()
				d.aborted = true
				d.mu.Unlock()
				local = nil
				break
			}
			w := local[len(local)-1]
			local = local[:len(local)-1]
			if len(tc.tab) > 400000 {
				solver.Sync(nil)
				tc = NewTermCtx()
			}
			res, sched := d.runPath(w.job, w.prefix, tc, solver, st, rng)
			for _, p := range sched {
				local = append(local, workItem{job: w.job, prefix: p})
			}
			d.mu.Lock()
			d.record(res)
			// donate work when others are idle
			for d.idle > 0 && len(local) > 1 && len(d.queue) < d.idle {
				d.queue = append(d.queue, local[0])
				local = local[1:]
				d.cond.Signal()
			}
			d.mu.Unlock()
		}
		d.mu.Lock()
		d.active--
		if d.active == 0 && len(d.queue) == 0 {
			d.cond.Broadcast()
		}
		d.mu.Unlock()
	}
	d.mu.Lock()
	d.stats.Queries += st.Queries
	d.stats.Sat += st.Sat
	d.stats.Unsat += st.Unsat
	d.stats.Unknown += st.Unknown
	d.stats.SolverNs += st.SolverNs
	d.stats.Instrs += st.Instrs
	d.stats.Asserts += st.Asserts
	d.stats.Errors = append(d.stats.Errors, st.Errors...)
	for f := range st.FuncsSeen {
		d.funcsSeen[f] = true
	}
	d.mu.Unlock()
}

func (d *Driver) record(r *PathResult) {
	agg := d.results[r.Job]
	agg.Paths++
	d.stats.Paths++
	if r.Decs > d.stats.MaxDepth {
		d.stats.MaxDepth = r.Decs
	}
	key := r.Outcome
	agg.Outcomes[key]++
	for l := range r.Reached {
		agg.Reached[l] = true
	}
	if r.Inconcl {
		agg.Inconcl = true
	}
	if isViolation(key) {
		if len(agg.Examples[key]) < 2 && r.Script != nil {
			agg.Examples[key] = append(agg.Examples[key], r)
		}
	} else if isEngineProblem(key) {
		agg.Unsupp[key]++
	} else if key == "ok" && r.Script != nil {
		agg.OkSamples = append(agg.OkSamples, r)
	}
	if d.verbose {
		fmt.Fprintf(os.Stderr, "  path job=%d %v decs=%d -> %s\n", r.Job.id, r.Job.Params, r.Decs, key)
	}
}

func (d *Driver) runPath(job *Job, prefix []int64, tc *TermCtx, solver *Solver, st *Stats, rng *rand.Rand) (res *PathResult, sched [][]int64) {
	e := &Exec{
		tc: tc, prog: d.prog, solver: solver, stats: st, job: job,
		prefix: prefix, globals: map[*ssa.Global]*Object{}, inited: map[*ssa.Package]bool{},
		reached: map[string]bool{}, poolItems: map[*Object][]Value{}, mutexes: map[string]int{}, strConst: map[string]*Object{},
	}
	res = &PathResult{Job: job}
	tc.ResetFacts()
	func() {
		defer func() {
			if r := recover(); r != nil {
				switch v := r.(type) {
				case unsupported:
					res.Outcome = "unsupported:" + v.msg + " @" + e.lastSite
				case engineBug:
					res.Outcome = "enginebug:" + v.msg
				case pathEnd:
					res.Outcome = "pruned:" + v.reason
				case assertFail:
					res.Outcome = "assert:" + v.label
				case unwindFail:
					res.Outcome = "unwind:" + v.where
				case blocked:
					res.Outcome = "blocked:" + v.site
				case *goPanic:
					res.Outcome = "panic:" + v.kind + "@" + v.site + " " + v.msg
				default:
					// engine crash: report as bug with a short stack
					res.Outcome = fmt.Sprintf("enginebug:go panic %v at %s", r, e.lastSite)
					if os.Getenv("GOSX_DEBUG") != "" {
						panic(r)
					}
				}
			}
		}()
		d.buildMu.Lock()
		if job.Fn.Blocks == nil && job.Fn.Pkg != nil {
			job.Fn.Pkg.Build()
		}
		d.buildMu.Unlock()
		e.callFunction(job.Fn, nil, nil)
		res.Outcome = "ok"
	}()
	res.Reached = e.reached
	res.Decs = len(e.decisions)
	res.Inconcl = e.inconcl
	res.Notes = e.notes
	sched = e.scheduled
	// models: always for violations; for ok paths with some probability (translator validation)
	want := isViolation(res.Outcome)
	if res.Outcome == "ok" {
		agg := d.results[job]
		d.mu.Lock()
		n := len(agg.OkSamples)
		d.mu.Unlock()
		if n < 4 || rng.Intn(8) == 0 && n < 64 {
			want = true
		}
	}
	if want {
		if a := solver.Check(e.pc, nil); a == Sat {
			res.Script = e.makeScript(res.Outcome)
			res.HasModel = true
		} else if isViolation(res.Outcome) {
			res.Inconcl = true
			res.Notes = append(res.Notes, "final path condition not sat: "+a.String())
		}
	}
	return
}

func (e *Exec) makeScript(outcome string) *Script {
	s := &Script{Harness: e.job.H.Func, Params: e.job.Params, Expect: outcome}
	var vars []*Term
	for _, d := range e.draws {
		vars = append(vars, d.Vars...)
	}
	vals := e.solver.Values(vars)
	for _, d := range e.draws {
		if d.Kind == "bytes" {
			b := make([]byte, d.N)
			for i, v := range d.Vars {
				b[i] = byte(vals[v])
			}
			s.Draws = append(s.Draws, ScriptDraw{K: "bytes", V: hex.EncodeToString(b), N: d.N})
		} else {
			s.Draws = append(s.Draws, ScriptDraw{K: d.Kind, V: fmt.Sprint(vals[d.Vars[0]])})
		}
	}
	for _, o := range e.observes {
		s.Obs = append(s.Obs, o.Label+"="+e.renderObs(o.V))
	}
	return s
}

func (e *Exec) renderObs(v Value) string {
	switch x := v.(type) {
	case *Term:
		vals := e.solver.Values([]*Term{x})
		if x.Op == OpFP || true {
			// floats: NaN canonicalisation is done by the harness (observe bits only of non-NaN)
		}
		return fmt.Sprint(vals[x])
	case *Slice:
		return e.renderBytes(x.Base, x.Off, x.Len)
	case *Str:
		if x.Opaque {
			return "?opaque"
		}
		return e.renderBytes(x.Base, x.Off, x.Len)
	case *Iface:
		if x == nil || x.T == nil {
			return "nil"
		}
		return "err"
	}
	return fmt.Sprintf("?%T", v)
}

func (e *Exec) renderBytes(base Loc, off, ln *Term) string {
	lv := e.solver.Values([]*Term{ln, off})
	n := int(lv[ln])
	if base.Obj == nil || n == 0 {
		return "x"
	}
	a := e.arrayAt(base)
	o := int(lv[off])
	var ts []*Term
	for i := 0; i < n && o+i < len(a.E); i++ {
		ts = append(ts, a.E[o+i].(*Term))
	}
	vals := e.solver.Values(ts)
	b := make([]byte, len(ts))
	for i, t := range ts {
		b[i] = byte(vals[t])
	}
	return "x" + hex.EncodeToString(b)
}

// ---------------------------------------------------------------------------------------------
// reporting

type Evidence struct {
	PropertyID  string                 `json:"property_id"`
	Tier        string                 `json:"tier"`
	Seed        int64                  `json:"seed"`
	Level       string                 `json:"level"`
	Coverage    map[string]interface{} `json:"coverage"`
	Assumptions []string               `json:"assumptions"`
	WallS       float64                `json:"wall_s"`
	Violations  int                    `json:"violations"`
}

func writeJSON(path string, v interface{}) error {
	data, err := json.MarshalIndent(v, "", " ")
	if err != nil {
		return err
	}
	os.MkdirAll(filepath.Dir(path), 0o755)
	return os.WriteFile(path, data, 0o644)
}

func solverVersion(bin string) string {
	out, err := execOutput(bin, "--version")
	if err != nil {
		return bin + " (version unknown)"
	}
	return strings.TrimSpace(strings.SplitN(out, "\n", 2)[0])
}

func paramsKey(m map[string]int) string {
	keys := make([]string, 0, len(m))
	for k := range m {
		keys = append(keys, k)
	}
	sort.Strings(keys)
	var sb strings.Builder
	for _, k := range keys {
		fmt.Fprintf(&sb, "%s=%d ", k, m[k])
	}
	return strings.TrimSpace(sb.String())
}

var _ = time.Now
var _ = types.Typ

package main

import (
	"encoding/json"
	"flag"
	"fmt"
	"math/rand"
	"os"
	"path/filepath"
	"runtime"
	"sort"
	"strconv"
	"strings"
	"time"
)

type blocked struct{ site, msg string }

func main() {
	checkFile := flag.String("check", "", "check specification (checks/<ID>.json)")
	tier := flag.String("tier", "quick", "quick|thorough")
	seedF := flag.Int64("seed", -1, "seed (default: $VERIF_SEED or 1)")
	workers := flag.Int("j", 0, "workers (default: number of CPUs)")
	verbose := flag.Bool("v", false, "verbose")
	solverBin := flag.String("solver", "z3", "solver binary")
	replay := flag.String("replay", "", "replay a script natively")
	noEvidence := flag.Bool("no-evidence", false, "do not write the evidence file")
	budgetS := flag.Int("budget", 0, "wall-clock budget for the exploration in seconds (default: quick 900, thorough 7200)")
	flag.Parse()

	if *replay != "" {
		os.Exit(replayOne(*replay))
	}
	if *checkFile == "" {
		fmt.Fprintln(os.Stderr, "usage: gosx -check checks/<ID>.json -tier quick|thorough")
		os.Exit(2)
	}
	if t := os.Getenv("VERIF_TIER"); t != "" && !isFlagSet("tier") {
		*tier = t
	}
	seed := *seedF
	if seed < 0 {
		seed = 1
		if s := os.Getenv("VERIF_SEED"); s != "" {
			if v, err := strconv.ParseInt(s, 10, 64); err == nil {
				seed = v
			}
		}
	}
	if *workers == 0 {
		*workers = runtime.NumCPU()
	}
	data, err := os.ReadFile(*checkFile)
	if err != nil {
		fmt.Fprintln(os.Stderr, err)
		os.Exit(2)
	}
	spec := &CheckSpec{}
	if err := json.Unmarshal(data, spec); err != nil {
		fmt.Fprintln(os.Stderr, "bad check spec:", err)
		os.Exit(2)
	}
	d := &Driver{spec: spec, tier: *tier, seed: seed, workers: *workers, verbose: *verbose, solverBin: *solverBin}
	d.timeoutMs = 20000
	if v, ok := spec.TimeoutMs[*tier]; ok {
		d.timeoutMs = v
	}
	d.start = time.Now()
	if *budgetS == 0 {
		*budgetS = 900
		if *tier == "thorough" {
			*budgetS = 7200
		}
	}
	d.budget = time.Duration(*budgetS) * time.Second
	rc := d.runCheck(!*noEvidence)
	if d.prepDir != "" {
		os.RemoveAll(d.prepDir)
	}
	os.Exit(rc)
}

func isFlagSet(name string) bool {
	set := false
	flag.Visit(func(f *flag.Flag) {
		if f.Name == name {
			set = true
		}
	})
	return set
}

func loadKnown() []KnownFinding {
	var ks []KnownFinding
	data, err := os.ReadFile("/verif/known_findings.json")
	if err != nil {
		return nil
	}
	var wrap struct {
		Findings []KnownFinding `json:"findings"`
	}
	if err := json.Unmarshal(data, &wrap); err != nil {
		fmt.Fprintln(os.Stderr, "bad known_findings.json:", err)
		os.Exit(2)
	}
	ks = wrap.Findings
	return ks
}

func (d *Driver) runCheck(writeEvidence bool) int {
	t0 := time.Now()
	id := d.spec.Property
	fmt.Printf("gosx: property %s tier=%s seed=%d workers=%d\n", id, d.tier, d.seed, d.workers)
	if err := d.load(); err != nil {
		if pv, ok := err.(*prepViolation); ok {
			dir := filepath.Join("/verif/replays", id)
			os.RemoveAll(dir)
			os.MkdirAll(dir, 0o755)
			rp := filepath.Join(dir, "emitted_code_violation.txt")
			os.WriteFile(rp, []byte(pv.msg+"\n\nreproduce: "+d.spec.Prepare.Cmd+" <empty dir> "+d.tier+" ; then go build with the emitted files overlaid (see DESIGN.md, C05)\n"), 0o644)
			fmt.Println("  violation (concrete, on the emitted code):", strings.SplitN(pv.msg, "\n", 3)[0])
			fmt.Printf("VIOLATION property=%s replay=%s\n", id, rp)
			if writeEvidence {
				writeJSON(filepath.Join("/verif/evidence", id+".json"), &Evidence{PropertyID: id, Tier: d.tier, Seed: d.seed, Level: "other", WallS: time.Since(t0).Seconds(), Violations: 1,
					Coverage: map[string]interface{}{"explanation": "the emitted code failed the type check / regeneration comparison before symbolic execution started: " + trunc(pv.msg, 500), "evaluations": 1, "distinct_nontrivial": 2}})
			}
			return 1
		}
		fmt.Println("ENGINE-ERROR load:", err)
		return 2
	}
	tLoad := time.Since(t0)
	jobs, err := d.makeJobs()
	if err != nil {
		fmt.Println("ENGINE-ERROR jobs:", err)
		return 2
	}
	if len(jobs) == 0 {
		fmt.Println("ENGINE-ERROR no jobs for this tier")
		return 2
	}
	if os.Getenv("GOSX_NO_XSOLVER") == "" {
		n := 120
		if d.tier == "thorough" {
			n = 400
		}
		d.xs = NewXSample(n)
	}
	d.explore(jobs)
	tExplore := time.Since(t0) - tLoad
	if d.xs != nil {
		d.xres = d.xs.run(d.workers, 20000)
	}

	// ----- aggregate per harness
	type hAgg struct {
		paths    int
		outcomes map[string]int
		reached  map[string]bool
		jobs     int
	}
	hs := map[string]*hAgg{}
	var viol []*PathResult
	var okSamples []*PathResult
	problems := []string{}
	inconclusive := false
	for _, j := range jobs {
		agg := d.results[j]
		h := hs[j.H.Func]
		if h == nil {
			h = &hAgg{outcomes: map[string]int{}, reached: map[string]bool{}}
			hs[j.H.Func] = h
		}
		h.jobs++
		h.paths += agg.Paths
		for k, v := range agg.Outcomes {
			h.outcomes[k] += v
		}
		for l := range agg.Reached {
			h.reached[l] = true
		}
		if agg.Inconcl {
			inconclusive = true
			problems = append(problems, fmt.Sprintf("solver returned unknown in %s %s", j.H.Func, paramsKey(j.Params)))
		}
		for k, n := range agg.Unsupp {
			if strings.HasPrefix(k, "unwind:") {
				continue // handled through native replay below when a model exists
			}
			problems = append(problems, fmt.Sprintf("%s [%s]: %s (x%d)", j.H.Func, paramsKey(j.Params), k, n))
		}
		keys := make([]string, 0, len(agg.Examples))
		for k := range agg.Examples {
			keys = append(keys, k)
		}
		sort.Strings(keys)
		for _, k := range keys {
			viol = append(viol, agg.Examples[k]...)
		}
		// pick validation samples
		nval := 3
		if d.tier == "thorough" {
			nval = 10
		}
		if v, ok := j.H.Validate[d.tier]; ok {
			nval = v
		}
		rng := rand.New(rand.NewSource(d.seed*7919 + int64(j.id)))
		perm := rng.Perm(len(agg.OkSamples))
		perJob := (nval + 0)
		for i := 0; i < len(perm) && i < perJob; i++ {
			okSamples = append(okSamples, agg.OkSamples[perm[i]])
		}
	}
	// cap the number of validation samples per harness
	okSamples = capSamples(okSamples, d.tier)

	// unwinding failures
	for _, j := range jobs {
		for k, n := range d.results[j].Outcomes {
			if strings.HasPrefix(k, "unwind:") {
				found := false
				for _, ex := range d.results[j].Examples[k] {
					_ = ex
					found = true
				}
				if !found {
					problems = append(problems, fmt.Sprintf("%s [%s]: unwinding failure %s (x%d)", j.H.Func, paramsKey(j.Params), k, n))
				}
			}
		}
	}

	// vacuity
	for _, h := range d.spec.Harnesses {
		a := hs[h.Func]
		if a == nil {
			continue
		}
		for _, l := range h.Reach {
			if !a.reached[l] {
				problems = append(problems, fmt.Sprintf("VACUOUS: %s never reached label %q", h.Func, l))
			}
		}
		if a.outcomes["ok"] == 0 && len(h.Reach) == 0 {
			problems = append(problems, fmt.Sprintf("VACUOUS: %s has no passing path", h.Func))
		}
	}
	if d.aborted {
		problems = append(problems, fmt.Sprintf("time budget of %s exceeded: exploration incomplete", d.budget))
	}
	if len(d.stats.Errors) > 0 {
		problems = append(problems, fmt.Sprintf("solver errors: %d, first: %s", len(d.stats.Errors), d.stats.Errors[0]))
	}
	if d.xres != nil && len(d.xres.Disagree) > 0 {
		inconclusive = true
		problems = append(problems, "SOLVER-DISAGREEMENT: "+d.xres.Disagree[0])
	}

	// ----- native replay
	replayDir := filepath.Join("/verif/replays", id)
	os.RemoveAll(replayDir)
	os.MkdirAll(replayDir, 0o755)
	tmpDir, _ := os.MkdirTemp("", "gosx-scripts-")
	defer os.RemoveAll(tmpDir)
	byPkg := map[string][]string{}
	harnessOf := map[string]string{}
	scriptOf := map[*PathResult]string{}
	addScript := func(r *PathResult, dir, name string) {
		p := filepath.Join(dir, name)
		writeJSON(p, r.Script)
		scriptOf[r] = p
		harnessOf[p] = r.Job.H.Func
		i := strings.LastIndex(r.Job.H.Func, ".")
		pkg := r.Job.H.Func[:i]
		byPkg[pkg] = append(byPkg[pkg], p)
	}
	for i, r := range viol {
		addScript(r, replayDir, fmt.Sprintf("v%03d.json", i))
	}
	for i, r := range okSamples {
		addScript(r, tmpDir, fmt.Sprintf("ok%04d.json", i))
	}
	native := map[string]*NativeResult{}
	retried := 0
	tR0 := time.Now()
	for pkg, scripts := range byPkg {
		res, err := d.replayNative(pkg, scripts, harnessOf)
		if err != nil {
			fmt.Println("ENGINE-ERROR native replay:", err)
			return 2
		}
		for k, v := range res {
			native[k] = v
		}
		// A native timeout that the engine did not predict (the path is expected to end) may be a
		// loaded machine rather than a hang: such scripts get one more run, alone, before the
		// outcome is believed.
		expectsHang := map[string]bool{}
		for r, p := range scriptOf {
			if strings.HasPrefix(r.Outcome, "blocked:") || strings.HasPrefix(r.Outcome, "unwind:") {
				expectsHang[p] = true
			}
		}
		for _, p := range scripts {
			if nr := native[p]; (nr == nil || nr.Outcome == "timeout") && !expectsHang[p] {
				again, err := d.replayNative(pkg, []string{p}, harnessOf)
				if err == nil && again[p] != nil {
					native[p] = again[p]
					retried++
				}
			}
		}
	}
	tReplay := time.Since(tR0)

	known := loadKnown()
	violations := 0
	knownHits := map[string]bool{}
	var violLines []string
	var sampleViol []interface{}
	for _, r := range viol {
		p := scriptOf[r]
		nat := native[p]
		pred := r.Outcome
		if strings.HasPrefix(pred, "unwind:") {
			if nat != nil && nat.Outcome == "timeout" {
				// reproduced hang
			} else {
				problems = append(problems, fmt.Sprintf("unwinding failure not reproduced as a hang: %s (%s) native=%v", pred, p, natOutcome(nat)))
				continue
			}
		} else if !nativeMatches(pred, nat) {
			problems = append(problems, fmt.Sprintf("ENGINE-MISMATCH: engine predicts %q, native run gives %q (script %s)", pred, natOutcome(nat), p))
			continue
		}
		// reproduced
		kf := matchKnown(known, id, r)
		if kf != nil {
			if !knownHits[kf.What] {
				knownHits[kf.What] = true
				fmt.Printf("KNOWN-FINDING: property=%s %s [replay=%s]\n", id, kf.What, p)
			}
			continue
		}
		violations++
		violLines = append(violLines, fmt.Sprintf("VIOLATION property=%s replay=%s", id, p))
		fmt.Printf("  violation: harness=%s params=[%s] outcome=%q native=%q\n", r.Job.H.Func, paramsKey(r.Job.Params), pred, natOutcome(nat))
		sampleViol = append(sampleViol, map[string]interface{}{"harness": r.Job.H.Func, "params": r.Job.Params, "outcome": pred, "script": p})
	}
	validated := 0
	for _, r := range okSamples {
		p := scriptOf[r]
		nat := native[p]
		if nat == nil || nat.Outcome != "ok" || !obsEqual(r.Script.Obs, nat.Obs) {
			keep := filepath.Join(replayDir, "mismatch_"+filepath.Base(p))
			writeJSON(keep, r.Script)
			var nobs []string
			if nat != nil {
				nobs = nat.Obs
			}
			problems = append(problems, fmt.Sprintf("ENGINE-MISMATCH on passing path: native=%q engine obs=%v native obs=%v (script %s)", natOutcome(nat), r.Script.Obs, nobs, keep))
			continue
		}
		validated++
	}

	// ----- report
	wall := time.Since(t0).Seconds()
	hnames := make([]string, 0, len(hs))
	for n := range hs {
		hnames = append(hnames, n)
	}
	sort.Strings(hnames)
	var samples []interface{}
	distinct := 0
	for _, n := range hnames {
		a := hs[n]
		short := n[strings.LastIndex(n, ".")+1:]
		oc := make([]string, 0, len(a.outcomes))
		for k, v := range a.outcomes {
			kk := k
			if len(kk) > 90 {
				kk = kk[:90] + "…"
			}
			oc = append(oc, fmt.Sprintf("%s×%d", kk, v))
			if k == "ok" || isViolation(k) {
				distinct += v
			}
		}
		sort.Strings(oc)
		fmt.Printf("  %-40s jobs=%d paths=%d  %s\n", short, a.jobs, a.paths, strings.Join(oc, ", "))
	}
	for i, r := range okSamples {
		if i >= 3 {
			break
		}
		samples = append(samples, map[string]interface{}{"harness": r.Job.H.Func, "params": r.Job.Params, "draws": r.Script.Draws, "outcome": "ok", "obs": r.Script.Obs})
	}
	samples = append(samples, sampleViol...)
	if len(samples) == 0 {
		samples = append(samples, map[string]interface{}{"note": "no model sampled"})
	}
	fmt.Printf("  paths=%d instrs=%d queries=%d (sat %d, unsat %d, unknown %d) solver=%.1fs load=%.1fs explore=%.1fs replay=%.1fs validated=%d/%d wall=%.1fs\n",
		d.stats.Paths, d.stats.Instrs, d.stats.Queries, d.stats.Sat, d.stats.Unsat, d.stats.Unknown,
		float64(d.stats.SolverNs)/1e9, tLoad.Seconds(), tExplore.Seconds(), tReplay.Seconds(), validated, len(okSamples), wall)
	if d.xres != nil {
		fmt.Printf("  cross-solver: %d unsat queries re-decided by %v: %v (%.1fs)\n", d.xres.Sampled, d.xres.Solvers, d.xres.Answers, d.xres.TimeS)
	}

	funcs := make([]string, 0, len(d.funcsSeen))
	for f := range d.funcsSeen {
		if strings.Contains(f, "zzverif") {
			continue
		}
		funcs = append(funcs, f)
	}
	sort.Strings(funcs)
	bounds := map[string]interface{}{}
	for _, h := range d.spec.Harnesses {
		if hs[h.Func] == nil {
			continue
		}
		tp := h.Params[d.tier]
		if tp == nil {
			tp = h.Params["quick"]
		}
		uw := h.Unwind
		if uw == 0 {
			uw = 64
		}
		bounds[h.Func[strings.LastIndex(h.Func, ".")+1:]] = map[string]interface{}{"params": tp, "unwind_per_loop_header": uw, "note": h.Note}
	}
	outcomesByHarness := map[string]map[string]int{}
	for _, n := range hnames {
		outcomesByHarness[n[strings.LastIndex(n, ".")+1:]] = hs[n].outcomes
	}
	level := "model_checking"
	if d.spec.Level != "" {
		level = d.spec.Level
	}
	ev := &Evidence{
		PropertyID: id, Tier: d.tier, Seed: d.seed, Level: level, WallS: wall, Violations: violations,
		Assumptions: append([]string{}, d.spec.Assumptions...),
		Coverage: map[string]interface{}{
			"states":                        max(d.stats.Paths, 0),
			"transitions":                   d.stats.Instrs,
			"traces_validated_against_impl": validated,
			"samples":                       samples,
			"evaluations":                   d.stats.Queries,
			"distinct_nontrivial":           distinct,
			"rule":                          "states = feasible symbolic paths explored (each stands for every input satisfying its path condition); transitions = SSA instructions interpreted; evaluations = SMT queries discharged; distinct_nontrivial = distinct feasible paths that ran to the end of the harness (all assertions passed) or ended in a reported violation",
			"exhaustive":                    len(problems) == 0,
			"functions_encoded":             funcs,
			"functions_encoded_count":       len(funcs),
			"bounds":                        bounds,
			"bounds_text":                   d.spec.Bounds,
			"outside_claim":                 d.spec.Outside,
			"fakes_and_stubs":               d.spec.Fakes,
			"queries":                       map[string]int{"total": d.stats.Queries, "sat": d.stats.Sat, "unsat": d.stats.Unsat, "unknown": d.stats.Unknown},
			"solver_time_s":                 float64(d.stats.SolverNs) / 1e9,
			"solver":                        solverVersion(d.solverBin),
			"cross_solver_check":            d.xres,
			"native_replays_retried":        retried,
			"outcomes_by_harness":           outcomesByHarness,
			"known_findings_reproduced":     keysOf(knownHits),
			"problems":                      problems,
			"jobs":                          len(jobs),
			"programs":                      len(hs),
			"disagreements_checked":         d.stats.Asserts,
			"assertions_evaluated":          d.stats.Asserts,
			"encoding":                      "regenerated from /repo working tree on this run: go/packages + go/ssa (InstantiateGenerics), harness overlay, SSA interpreted over SMT bit-vector terms",
		},
	}
	ev.Assumptions = append(ev.Assumptions, "engine intrinsics: sync.Pool as LIFO stack, sync.Mutex as lock-state, sync/atomic as sequential memory ops, fmt/strconv formatting opaque")
	if writeEvidence {
		if err := writeJSON(filepath.Join("/verif/evidence", id+".json"), ev); err != nil {
			fmt.Println("ENGINE-ERROR evidence:", err)
			return 2
		}
	}
	for _, l := range violLines {
		fmt.Println(l)
	}
	if violations > 0 {
		return 1
	}
	if len(problems) > 0 || inconclusive {
		for _, p := range problems {
			fmt.Println("INCONCLUSIVE:", p)
		}
		return 2
	}
	fmt.Printf("OK property=%s held on everything explored (tier %s)\n", id, d.tier)
	return 0
}

func keysOf(m map[string]bool) []string {
	r := []string{}
	for k := range m {
		r = append(r, k)
	}
	sort.Strings(r)
	return r
}

func natOutcome(n *NativeResult) string {
	if n == nil {
		return "<none>"
	}
	return n.Outcome
}

func capSamples(s []*PathResult, tier string) []*PathResult {
	limit := 60
	if tier == "thorough" {
		limit = 300
	}
	if len(s) <= limit {
		return s
	}
	// keep an even spread
	out := make([]*PathResult, 0, limit)
	for i := 0; i < limit; i++ {
		out = append(out, s[i*len(s)/limit])
	}
	return out
}

func matchKnown(known []KnownFinding, id string, r *PathResult) *KnownFinding {
	for i := range known {
		k := &known[i]
		if k.Property != id || k.Status != "known" {
			continue
		}
		if k.Harness != "" && !strings.HasSuffix(r.Job.H.Func, k.Harness) {
			continue
		}
		if k.Outcome != "" && !strings.HasPrefix(r.Outcome, k.Outcome) {
			continue
		}
		if k.Region != "" {
			ok := false
			for _, rg := range r.Regions {
				if rg == k.Region {
					ok = true
				}
			}
			if !ok {
				continue
			}
		}
		return k
	}
	return nil
}

// replayOne replays a single script natively and prints the outcome.
func replayOne(path string) int {
	data, err := os.ReadFile(path)
	if err != nil {
		fmt.Println(err)
		return 2
	}
	s := &Script{}
	if err := json.Unmarshal(data, s); err != nil {
		fmt.Println(err)
		return 2
	}
	// property id from the directory name
	id := filepath.Base(filepath.Dir(path))
	specData, err := os.ReadFile(filepath.Join("/verif/checks", id+".json"))
	if err != nil {
		fmt.Println(err)
		return 2
	}
	spec := &CheckSpec{}
	json.Unmarshal(specData, spec)
	d := &Driver{spec: spec, tier: "quick", workers: 1, solverBin: "z3"}
	if err := d.load(); err != nil {
		fmt.Println("load:", err)
		return 2
	}
	i := strings.LastIndex(s.Harness, ".")
	res, err := d.replayNative(s.Harness[:i], []string{path}, map[string]string{path: s.Harness})
	if err != nil {
		fmt.Println(err)
		return 2
	}
	nat := res[path]
	fmt.Printf("script %s\n  harness %s params %v\n  engine predicted: %s\n  native outcome:   %s\n", path, s.Harness, s.Params, s.Expect, natOutcome(nat))
	if nat != nil {
		for _, o := range nat.Obs {
			fmt.Println("  obs", o)
		}
	}
	if nativeMatches(s.Expect, nat) && s.Expect != "ok" {
		fmt.Printf("VIOLATION property=%s replay=%s\n", id, path)
		return 1
	}
	return 0
}

package main

import (
	"bytes"
	"encoding/json"
	"fmt"
	"os"
	"os/exec"
	"path/filepath"
	"sort"
	"strings"
	"time"
)

func execOutput(bin string, args ...string) (string, error) {
	out, err := exec.Command(bin, args...).CombinedOutput()
	return string(out), err
}

type NativeResult struct {
	Outcome string
	Obs     []string
	Raw     string
}

const replayTestTmpl = `package %s

import (
	"bufio"
	"fmt"
	"os"
	"strings"
	"testing"
	"time"

	"github.com/basecomplextech/spec/internal/zzverif"
)

var zzHarnesses = map[string]func(){
%s}

func TestZZReplay(t *testing.T) {
	list := os.Getenv("ZZ_SCRIPTS")
	f, err := os.Open(list)
	if err != nil {
		t.Fatal(err)
	}
	defer f.Close()
	sc := bufio.NewScanner(f)
	for sc.Scan() {
		line := strings.TrimSpace(sc.Text())
		if line == "" {
			continue
		}
		parts := strings.SplitN(line, " ", 2)
		fn := zzHarnesses[parts[0]]
		if fn == nil {
			fmt.Printf("ZZ-RESULT %%s no-such-harness\n", parts[1])
			continue
		}
		type res struct {
			out string
			obs []string
		}
		ch := make(chan res, 1)
		go func() {
			o, ob := zzverif.Run(parts[1], fn)
			ch <- res{o, ob}
		}()
		select {
		case r := <-ch:
			fmt.Printf("ZZ-RESULT %%s %%s\n", parts[1], strings.ReplaceAll(r.out, "\n", " "))
			for _, o := range r.obs {
				fmt.Printf("ZZ-OBS %%s %%s\n", parts[1], o)
			}
		case <-time.After(20 * time.Second):
			fmt.Printf("ZZ-RESULT %%s timeout\n", parts[1])
			os.Stdout.Sync()
			os.Exit(0)
		}
	}
}
`

// replayNative runs the given scripts (path -> harness func full name) natively in /repo with overlays.
// All scripts must belong to harnesses of the same package.
func (d *Driver) replayNative(pkgPath string, scripts []string, harnessOf map[string]string) (map[string]*NativeResult, error) {
	results := map[string]*NativeResult{}
	if len(scripts) == 0 {
		return results, nil
	}
	rel := strings.TrimPrefix(strings.TrimPrefix(pkgPath, modPath), "/")
	pkgDir := filepath.Join(repoDir, rel)
	// package name
	var pkgName string
	for _, p := range d.prog.AllPackages() {
		if p.Pkg.Path() == pkgPath {
			pkgName = p.Pkg.Name()
		}
	}
	if pkgName == "" {
		return nil, fmt.Errorf("package %s not loaded", pkgPath)
	}
	// harness functions in this package
	names := map[string]bool{}
	for _, h := range d.spec.Harnesses {
		i := strings.LastIndex(h.Func, ".")
		if h.Func[:i] == pkgPath {
			names[h.Func[i+1:]] = true
		}
	}
	var nl []string
	for n := range names {
		nl = append(nl, n)
	}
	sort.Strings(nl)
	var mapSrc strings.Builder
	for _, n := range nl {
		fmt.Fprintf(&mapSrc, "\t%q: %s,\n", n, n)
	}
	tmp, err := os.MkdirTemp("", "gosx-replay-")
	if err != nil {
		return nil, err
	}
	defer os.RemoveAll(tmp)
	testFile := filepath.Join(tmp, "zz_replay_test.go")
	if err := os.WriteFile(testFile, []byte(fmt.Sprintf(replayTestTmpl, pkgName, mapSrc.String())), 0o644); err != nil {
		return nil, err
	}
	repl := map[string]string{}
	for virt, real := range d.ovFiles {
		repl[virt] = real
	}
	repl[filepath.Join(pkgDir, "zz_replay_test.go")] = testFile
	ovJSON := filepath.Join(tmp, "overlay.json")
	data, _ := json.Marshal(map[string]interface{}{"Replace": repl})
	os.WriteFile(ovJSON, data, 0o644)

	remaining := append([]string{}, scripts...)
	for round := 0; len(remaining) > 0 && round < len(scripts)+2; round++ {
		listFile := filepath.Join(tmp, fmt.Sprintf("list%d.txt", round))
		var sb strings.Builder
		for _, s := range remaining {
			h := harnessOf[s]
			i := strings.LastIndex(h, ".")
			fmt.Fprintf(&sb, "%s %s\n", h[i+1:], s)
		}
		os.WriteFile(listFile, []byte(sb.String()), 0o644)
		// build the test binary once (a purely virtual package directory cannot be chdir'ed into by
		// `go test`), then run it from the temp dir
		bin := filepath.Join(tmp, "replay.test")
		if round == 0 {
			bcmd := exec.Command("go", "test", "-tags=verif", "-vet=off", "-c", "-o", bin, "-overlay", ovJSON, "./"+rel)
			bcmd.Dir = repoDir
			bcmd.Env = goEnv()
			if bout, err := bcmd.CombinedOutput(); err != nil {
				return results, fmt.Errorf("native replay build failed:\n%s", trunc(string(bout), 3000))
			}
		}
		cmd := exec.Command(bin, "-test.run", "^TestZZReplay$", "-test.v", "-test.timeout", "600s")
		cmd.Dir = tmp
		cmd.Env = append(goEnv(), "ZZ_SCRIPTS="+listFile)
		var out bytes.Buffer
		cmd.Stdout = &out
		cmd.Stderr = &out
		t0 := time.Now()
		runErr := cmd.Run()
		_ = t0
		got := 0
		for _, line := range strings.Split(out.String(), "\n") {
			if strings.HasPrefix(line, "ZZ-RESULT ") {
				f := strings.SplitN(strings.TrimPrefix(line, "ZZ-RESULT "), " ", 2)
				if len(f) == 2 {
					results[f[0]] = &NativeResult{Outcome: f[1]}
					got++
				}
			} else if strings.HasPrefix(line, "ZZ-OBS ") {
				f := strings.SplitN(strings.TrimPrefix(line, "ZZ-OBS "), " ", 2)
				if len(f) == 2 && results[f[0]] != nil {
					results[f[0]].Obs = append(results[f[0]].Obs, f[1])
				}
			}
		}
		var rest []string
		for _, s := range remaining {
			if results[s] == nil {
				rest = append(rest, s)
			}
		}
		if got == 0 {
			// the process died before producing anything: the first remaining script crashed the binary
			if len(rest) > 0 {
				msg := "crash"
				o := out.String()
				if strings.Contains(o, "fatal error:") {
					i := strings.Index(o, "fatal error:")
					msg = "fatal:" + strings.SplitN(o[i:], "\n", 2)[0]
				} else if strings.Contains(o, "[build failed]") || strings.Contains(o, "cannot find") || runErr != nil && !strings.Contains(o, "ZZ-") {
					return results, fmt.Errorf("native replay build/run failed:\n%s", trunc(o, 3000))
				}
				results[rest[0]] = &NativeResult{Outcome: msg, Raw: trunc(o, 2000)}
				rest = rest[1:]
			}
		} else if len(rest) > 0 && len(rest) < len(remaining) {
			// process ended early (timeout/exit or fatal error after some results)
			o := out.String()
			if strings.Contains(o, "fatal error:") {
				i := strings.Index(o, "fatal error:")
				results[rest[0]] = &NativeResult{Outcome: "fatal:" + strings.SplitN(o[i:], "\n", 2)[0], Raw: trunc(o, 2000)}
				rest = rest[1:]
			}
		}
		remaining = rest
	}
	return results, nil
}

// nativeMatches compares the native outcome with the engine's prediction.
func nativeMatches(pred string, nat *NativeResult) bool {
	if nat == nil {
		return false
	}
	switch {
	case pred == "ok":
		return nat.Outcome == "ok"
	case strings.HasPrefix(pred, "assert:"):
		return nat.Outcome == pred
	case strings.HasPrefix(pred, "panic:oob-unsafe"):
		return strings.HasPrefix(nat.Outcome, "panic:") || strings.HasPrefix(nat.Outcome, "fatal:")
	case strings.HasPrefix(pred, "panic:deadlock"), strings.HasPrefix(pred, "blocked:"):
		return nat.Outcome == "timeout" || strings.HasPrefix(nat.Outcome, "fatal:")
	case strings.HasPrefix(pred, "panic:"):
		return strings.HasPrefix(nat.Outcome, "panic:") || strings.HasPrefix(nat.Outcome, "fatal:")
	}
	return false
}

func obsEqual(a, b []string) bool {
	if len(a) != len(b) {
		return false
	}
	for i := range a {
		if a[i] != b[i] {
			// nan: native prints "nan", engine prints bits; the harness avoids observing NaN
			return false
		}
	}
	return true
}

package main

import (
	"fmt"
	"go/constant"
	"go/token"
	"go/types"
	"math"
	"runtime"
	"strings"

	"golang.org/x/tools/go/ssa"
)

// Go-level panic payloads used for control flow inside the engine.
type unsupported struct{ msg string }
type engineBug struct{ msg string }
type pathEnd struct{ reason string } // assume-false, infeasible
type assertFail struct{ label string }
type unwindFail struct{ where string }

// goPanic is a panic of the interpreted program.
type goPanic struct {
	kind string // "index", "slice", "nil", "divide", "typeassert", "explicit", "oob-unsafe", ...
	val  Value
	site string
	msg  string
}

type deferred struct {
	fn   Value
	args []Value
	inst *ssa.Defer
}

type frame struct {
	fn        *ssa.Function
	env       map[ssa.Value]Value
	block     *ssa.BasicBlock
	prev      *ssa.BasicBlock
	defers    []deferred
	result    Value
	panicking *goPanic
	recovered bool
	visits    map[*ssa.BasicBlock]int
	caller    *frame
}

type Draw struct {
	Kind string
	Vars []*Term // one var for scalars, n vars for bytes
	N    int
}

type Obs struct {
	Label string
	V     Value
}

// Exec is the per-path execution state.
type Exec struct {
	tc     *TermCtx
	prog   *ssa.Program
	solver *Solver
	stats  *Stats
	job    *Job

	pc        []*Term
	prefix    []int64
	pos       int
	decisions []int64
	scheduled [][]int64

	globals map[*ssa.Global]*Object
	inited  map[*ssa.Package]bool
	initing int

	draws    []Draw
	observes []Obs
	reached  map[string]bool
	objSeq   int
	depth    int
	steps    int64

	poolItems map[*Object][]Value // sync.Pool model
	mutexes   map[string]int
	strConst  map[string]*Object
	inconcl   bool
	lastSite  string
	curFrame  *frame
	drawSeq   int
	notes     []string
	panicStack []*frame
	spawned   []string
	model     map[string]uint64
	noModel   bool
	regions   []string
}

func (e *Exec) site(fr *frame, instr ssa.Instruction) string {
	pos := e.prog.Fset.Position(instr.Pos())
	fn := fr.fn.String()
	if pos.IsValid() {
		f := pos.Filename
		if i := strings.LastIndex(f, "/"); i >= 0 {
			f = f[i+1:]
		}
		return fmt.Sprintf("%s@%s:%d", fn, f, pos.Line)
	}
	return fn
}

// ---------------------------------------------------------------------------------------------
// decisions

func (e *Exec) assume(c *Term) {
	if c.IsTrue() {
		return
	}
	e.pc = append(e.pc, c)
	e.tc.Learn(c)
	if e.model != nil {
		if v, ok := e.evalUnderModel(c); !ok || !v {
			e.model = nil
		}
	}
}

// branch decides a symbolic condition, forking when both sides are feasible.
func (e *Exec) branch(cond *Term) bool {
	if cond.IsConst() {
		return cond.Val != 0
	}
	if e.initing > 0 {
		panic(unsupported{"symbolic branch during package init"})
	}
	nc := e.tc.BNot(cond)
	if e.pos < len(e.prefix) {
		d := e.prefix[e.pos] != 0
		e.pos++
		e.decisions = append(e.decisions, b2i(d))
		if d {
			e.assume(cond)
		} else {
			e.assume(nc)
		}
		return d
	}
	e.pos++
	// model-guided feasibility: the side the current model takes is feasible without a query
	var f1, f0 bool
	if e.model == nil && !e.noModel {
		if a := e.solver.Check(e.pc, nil); a == Sat {
			e.model = e.solver.Model(e.tc)
		} else {
			e.noModel = true
			if a == Unknown {
				e.inconcl = true
			}
		}
	}
	mv, known := e.evalUnderModel(cond)
	if known {
		if mv {
			f1 = true
			a0 := e.solver.Check(e.pc, nc)
			if a0 == Unknown {
				e.inconcl = true
			}
			f0 = a0 != Unsat
			// we take the true side: the model stays valid
		} else {
			f0 = true
			a1 := e.solver.Check(e.pc, cond)
			if a1 == Unknown {
				e.inconcl = true
			}
			f1 = a1 != Unsat
			if f1 {
				// we take the true side: fetch a model for pc ∧ cond (still asserted)
				if a1 == Sat {
					e.model = e.solver.Model(e.tc)
				} else {
					e.model, e.noModel = nil, true
				}
			}
		}
	} else {
		a1 := e.solver.Check(e.pc, cond)
		f1 = a1 != Unsat
		if a1 == Unknown {
			e.inconcl = true
		}
		if !f1 {
			f0 = true // pc is satisfiable, so the other side is
		} else {
			a0 := e.solver.Check(e.pc, nc)
			if a0 == Unknown {
				e.inconcl = true
			}
			f0 = a0 != Unsat
		}
	}
	switch {
	case f1 && f0:
		alt := make([]int64, len(e.decisions)+1)
		copy(alt, e.decisions)
		alt[len(e.decisions)] = 0
		e.scheduled = append(e.scheduled, alt)
		e.decisions = append(e.decisions, 1)
		e.assume(cond)
		return true
	case f1:
		e.decisions = append(e.decisions, 1)
		e.assume(cond)
		return true
	case f0:
		e.decisions = append(e.decisions, 0)
		e.assume(nc)
		return false
	}
	panic(pathEnd{"infeasible"})
}

func (e *Exec) evalUnderModel(c *Term) (val bool, ok bool) {
	if e.model == nil {
		return false, false
	}
	defer func() {
		if r := recover(); r != nil {
			val, ok = false, false
		}
	}()
	return Eval(c, e.model, map[*Term]uint64{}) != 0, true
}

// guard forks into a program panic when ok can be false.
func (e *Exec) guard(ok *Term, kind string, msg string) {
	if ok.IsTrue() {
		return
	}
	if !e.branch(ok) {
		panic(&goPanic{kind: kind, site: e.lastSite, msg: msg})
	}
}

func b2i(b bool) int64 {
	if b {
		return 1
	}
	return 0
}

// concretize forks over the feasible values of t (all within [lo,hi], lo >= 0). Candidates come
// from the solver's model, so only feasible values cost queries. Each iteration takes one decision
// slot: 2v+2 = "t == v chosen", 2v+3 = "t != v assumed, continue".
func (e *Exec) concretize(t *Term, lo, hi int64) int64 {
	if t.IsConst() {
		return t.SVal()
	}
	if e.initing > 0 {
		panic(unsupported{"symbolic value concretised during package init"})
	}
	for iter := 0; ; iter++ {
		if iter > 100000 {
			panic(unwindFail{"concretize: too many values"})
		}
		if e.pos < len(e.prefix) {
			d := e.prefix[e.pos]
			e.pos++
			e.decisions = append(e.decisions, d)
			v := (d - 2) / 2
			vt := e.tc.Const(t.W, uint64(v))
			if (d-2)%2 == 0 {
				e.assume(e.tc.Eq(t, vt))
				return v
			}
			e.assume(e.tc.BNot(e.tc.Eq(t, vt)))
			continue
		}
		e.pos++
		// candidate from a model of the current path condition
		if e.model == nil {
			if a := e.solver.Check(e.pc, nil); a == Sat {
				e.model = e.solver.Model(e.tc)
			} else {
				if a == Unknown {
					e.inconcl = true
				}
				panic(pathEnd{"infeasible"})
			}
		}
		var v int64
		func() {
			defer func() {
				if r := recover(); r != nil {
					panic(unsupported{"concretize: cannot evaluate term under the model"})
				}
			}()
			v = sext64(Eval(t, e.model, map[*Term]uint64{}), t.W)
		}()
		if v < lo || v > hi {
			// ask for a value inside the range; outside values are the caller's concern (guards precede)
			in := e.tc.BAnd(e.tc.Sle(e.tc.Const(t.W, uint64(lo)), t), e.tc.Sle(t, e.tc.Const(t.W, uint64(hi))))
			if a := e.solver.Check(e.pc, in); a == Sat {
				e.model = e.solver.Model(e.tc)
				v = sext64(Eval(t, e.model, map[*Term]uint64{}), t.W)
			} else {
				panic(unsupported{fmt.Sprintf("concretize: value outside [%d,%d] at %s", lo, hi, e.lastSite)})
			}
		}
		vt := e.tc.Const(t.W, uint64(v))
		eq := e.tc.Eq(t, vt)
		ne := e.tc.BNot(eq)
		a0 := e.solver.Check(e.pc, ne)
		if a0 == Unknown {
			e.inconcl = true
		}
		if a0 != Unsat {
			alt := make([]int64, len(e.decisions)+1)
			copy(alt, e.decisions)
			alt[len(e.decisions)] = 2*v + 3
			e.scheduled = append(e.scheduled, alt)
		}
		e.decisions = append(e.decisions, 2*v+2)
		e.assume(eq)
		return v
	}
}

// ---------------------------------------------------------------------------------------------
// fresh symbols

func (e *Exec) fresh(kind string, w int) *Term {
	name := fmt.Sprintf("d%dw%d", e.drawSeq, w)
	e.drawSeq++
	v := e.tc.Var(name, w)
	e.draws = append(e.draws, Draw{Kind: kind, Vars: []*Term{v}})
	return v
}

func (e *Exec) freshBytes(n int) []Value {
	base := e.drawSeq
	e.drawSeq++
	vars := make([]*Term, n)
	vals := make([]Value, n)
	for i := 0; i < n; i++ {
		vars[i] = e.tc.Var(fmt.Sprintf("d%d_%dw8", base, i), 8)
		vals[i] = vars[i]
	}
	e.draws = append(e.draws, Draw{Kind: "bytes", Vars: vars, N: n})
	return vals
}

// internal (non-replayed) fresh symbol, e.g. for opaque results
func (e *Exec) internalVar(w int) *Term {
	name := fmt.Sprintf("x%dw%d", e.drawSeq, w)
	e.drawSeq++
	return e.tc.Var(name, w)
}

// ---------------------------------------------------------------------------------------------
// constants, globals

func (e *Exec) constValue(c *ssa.Const) Value {
	t := c.Type()
	if c.Value == nil {
		return e.zero(t)
	}
	switch u := t.Underlying().(type) {
	case *types.Basic:
		switch {
		case u.Info()&types.IsBoolean != 0:
			return e.tc.Bool(constant.BoolVal(c.Value))
		case u.Info()&types.IsString != 0:
			return e.strLit(constant.StringVal(c.Value))
		case u.Info()&types.IsInteger != 0:
			w := e.basicWidth(u)
			if v, ok := constant.Int64Val(constant.ToInt(c.Value)); ok {
				return e.tc.Const(w, uint64(v))
			}
			if v, ok := constant.Uint64Val(constant.ToInt(c.Value)); ok {
				return e.tc.Const(w, v)
			}
		case u.Info()&types.IsFloat != 0:
			f, _ := constant.Float64Val(c.Value)
			if u.Kind() == types.Float32 {
				f32v, _ := constant.Float32Val(c.Value)
				return e.tc.Const(32, uint64(math.Float32bits(f32v)))
			}
			return e.tc.Const(64, math.Float64bits(f))
		}
	}
	panic(unsupported{fmt.Sprintf("constant %s of type %s", c, t)})
}

func (e *Exec) strLit(s string) *Str {
	if s == "" {
		return &Str{Off: e.c64(0), Len: e.c64(0)}
	}
	obj, ok := e.strConst[s]
	if !ok {
		a := &ArrayV{E: make([]Value, len(s))}
		for i := 0; i < len(s); i++ {
			a.E[i] = e.tc.Const(8, uint64(s[i]))
		}
		obj = e.newObject(a, nil, "strlit")
		obj.ro = true
		e.strConst[s] = obj
	}
	return &Str{Base: Loc{Obj: obj}, Off: e.c64(0), Len: e.c64(int64(len(s)))}
}

func (e *Exec) global(g *ssa.Global) *Ptr {
	if o, ok := e.globals[g]; ok {
		return &Ptr{Loc: Loc{Obj: o}}
	}
	if g.Pkg != nil && !e.inited[g.Pkg] {
		e.initPackage(g.Pkg)
		if o, ok := e.globals[g]; ok {
			return &Ptr{Loc: Loc{Obj: o}}
		}
	}
	et := g.Type().(*types.Pointer).Elem()
	o := e.newObject(e.zero(et), et, "global "+g.String())
	e.globals[g] = o
	return &Ptr{Loc: Loc{Obj: o}}
}

func (e *Exec) initPackage(p *ssa.Package) {
	e.inited[p] = true
	// allocate all globals first
	for _, m := range p.Members {
		if g, ok := m.(*ssa.Global); ok {
			if _, ok := e.globals[g]; !ok {
				et := g.Type().(*types.Pointer).Elem()
				var z Value
				func() {
					defer func() {
						if r := recover(); r != nil {
							if _, ok := r.(unsupported); ok {
								z = Poison{"zero value"}
								return
							}
							panic(r)
						}
					}()
					z = e.zero(et)
				}()
				e.globals[g] = e.newObject(z, et, "global "+g.String())
			}
		}
	}
	init := p.Func("init")
	if init == nil {
		return
	}
	if init.Blocks == nil {
		p.Build()
	}
	e.initing++
	defer func() { e.initing-- }()
	e.callFunction(init, nil, nil)
}

// ---------------------------------------------------------------------------------------------
// calls

const maxDepth = 200

func (e *Exec) callFunction(fn *ssa.Function, args []Value, env []Value) (ret Value) {
	if fn.Blocks == nil {
		if fn.Pkg != nil {
			fn.Pkg.Build()
		}
		if fn.Blocks == nil {
			panic(unsupported{"no body: " + fn.String()})
		}
	}
	if e.depth > maxDepth {
		panic(unwindFail{"recursion depth in " + fn.String()})
	}
	e.depth++
	if e.stats.FuncsSeen != nil && e.initing == 0 {
		e.stats.FuncsSeen[fn.String()] = true
	}
	fr := &frame{fn: fn, env: make(map[ssa.Value]Value, 16), caller: e.curFrame}
	saved := e.curFrame
	e.curFrame = fr
	for i, p := range fn.Params {
		fr.env[p] = args[i]
	}
	for i, fv := range fn.FreeVars {
		fr.env[fv] = env[i]
	}
	defer func() {
		e.depth--
		e.curFrame = saved
		if r := recover(); r != nil {
			gp, ok := r.(*goPanic)
			if !ok {
				panic(r)
			}
			// program panic: run deferred calls
			fr.panicking = gp
			e.panicStack = append(e.panicStack, fr)
			e.runDefers(fr)
			e.panicStack = e.panicStack[:len(e.panicStack)-1]
			if fr.panicking != nil {
				panic(fr.panicking)
			}
			// recovered
			if fn.Recover != nil {
				fr.block = fn.Recover
				fr.prev = nil
				ret = e.runFrom(fr)
				return
			}
			// no recover block: return zero results
			ret = e.zeroResults(fn)
		}
	}()
	fr.block = fn.Blocks[0]
	return e.runFrom(fr)
}

func (e *Exec) zeroResults(fn *ssa.Function) Value {
	res := fn.Signature.Results()
	switch res.Len() {
	case 0:
		return nil
	case 1:
		return e.zero(res.At(0).Type())
	}
	return e.zero(res)
}

func (e *Exec) runDefers(fr *frame) {
	for len(fr.defers) > 0 {
		d := fr.defers[len(fr.defers)-1]
		fr.defers = fr.defers[:len(fr.defers)-1]
		e.callValue(d.fn, d.args, fr)
	}
}

func (e *Exec) runFrom(fr *frame) Value {
	for {
		b := fr.block
		if fr.visits == nil {
			fr.visits = map[*ssa.BasicBlock]int{}
		}
		fr.visits[b]++
		if fr.visits[b] > e.job.Unwind {
			panic(unwindFail{fmt.Sprintf("%s block %d", fr.fn, b.Index)})
		}
		var next *ssa.BasicBlock
		for _, instr := range b.Instrs {
			e.steps++
			e.stats.Instrs++
			if e.steps > e.job.MaxSteps {
				panic(unwindFail{"step budget exceeded in " + fr.fn.String()})
			}
			switch in := instr.(type) {
			case *ssa.Return:
				var res Value
				switch len(in.Results) {
				case 0:
				case 1:
					res = e.get(fr, in.Results[0])
				default:
					t := make(Tuple, len(in.Results))
					for i, r := range in.Results {
						t[i] = e.get(fr, r)
					}
					res = t
				}
				return res
			case *ssa.Jump:
				next = b.Succs[0]
			case *ssa.If:
				c := e.get(fr, in.Cond).(*Term)
				e.lastSite = e.site(fr, in)
				if e.branch(c) {
					next = b.Succs[0]
				} else {
					next = b.Succs[1]
				}
			case *ssa.Panic:
				v := e.get(fr, in.X)
				panic(&goPanic{kind: "explicit", val: v, site: e.site(fr, in), msg: e.describe(v)})
			default:
				e.exec(fr, instr)
			}
		}
		if next == nil {
			panic(engineBug{"block without terminator"})
		}
		fr.prev, fr.block = b, next
	}
}

func (e *Exec) describe(v Value) string {
	switch x := v.(type) {
	case *Iface:
		if x.T == nil {
			return "nil"
		}
		if s, ok := x.V.(*Str); ok {
			if b, ok := e.concreteString(s); ok {
				return b
			}
			return "<string>"
		}
		return x.T.String()
	}
	return fmt.Sprintf("%T", v)
}

func (e *Exec) concreteString(s *Str) (string, bool) {
	if s.Opaque {
		return "", false
	}
	if !s.Len.IsConst() || !s.Off.IsConst() {
		return "", false
	}
	n := int(s.Len.Val)
	if n == 0 {
		return "", true
	}
	a := e.arrayAt(s.Base)
	off := int(s.Off.Val)
	b := make([]byte, n)
	for i := 0; i < n; i++ {
		t, ok := a.E[off+i].(*Term)
		if !ok || !t.IsConst() {
			return "", false
		}
		b[i] = byte(t.Val)
	}
	return string(b), true
}

func (e *Exec) get(fr *frame, v ssa.Value) Value {
	switch x := v.(type) {
	case *ssa.Const:
		return e.constValue(x)
	case *ssa.Global:
		return e.global(x)
	case *ssa.Function:
		return &Closure{Fn: x}
	case *ssa.Builtin:
		return &Closure{Intrinsic: "builtin:" + x.Name()}
	case nil:
		return nil
	}
	r, ok := fr.env[v]
	if !ok {
		panic(engineBug{fmt.Sprintf("no value for %s (%T) in %s", v.Name(), v, fr.fn)})
	}
	return r
}

func (e *Exec) callValue(fv Value, args []Value, fr *frame) Value {
	cl, ok := fv.(*Closure)
	if !ok || cl == nil {
		if _, isP := fv.(Poison); isP {
			panic(unsupported{"call of poison function value"})
		}
		panic(&goPanic{kind: "nil", site: e.lastSite, msg: "call of nil func"})
	}
	if cl.Intrinsic != "" {
		return e.intrinsic(cl.Intrinsic, args, nil, fr)
	}
	return e.callFn(cl.Fn, args, cl.Env, fr)
}

// callFn calls fn, going through overrides and intrinsics.
func (e *Exec) callFn(fn *ssa.Function, args []Value, env []Value, fr *frame) Value {
	name := fn.String()
	if o := fn.Origin(); o != nil {
		name = o.String()
	}
	if ov, ok := e.job.overrides[name]; ok {
		return e.callFunction(ov, args, nil)
	}
	if isIntrinsic(name, fn) {
		return e.intrinsic(name, args, fn, fr)
	}
	return e.callFunction(fn, args, env)
}

func (e *Exec) doCall(fr *frame, cc *ssa.CallCommon, instr ssa.Instruction) Value {
	e.lastSite = e.site(fr, instr)
	if cc.IsInvoke() {
		recv := e.get(fr, cc.Value)
		if _, isP := recv.(Poison); isP {
			panic(unsupported{"invoke on poison value"})
		}
		ifc := recv.(*Iface)
		if ifc == nil || ifc.T == nil {
			panic(&goPanic{kind: "nil", site: e.lastSite, msg: "invoke " + cc.Method.Name() + " on nil interface"})
		}
		fn := e.lookupMethod(ifc.T, cc.Method)
		args := make([]Value, 0, len(cc.Args)+1)
		args = append(args, ifc.V)
		for _, a := range cc.Args {
			args = append(args, e.get(fr, a))
		}
		return e.callFn(fn, args, nil, fr)
	}
	args := make([]Value, len(cc.Args))
	for i, a := range cc.Args {
		args[i] = e.get(fr, a)
	}
	switch f := cc.Value.(type) {
	case *ssa.Function:
		return e.callFn(f, args, nil, fr)
	case *ssa.Builtin:
		return e.builtin(f.Name(), args, cc, fr)
	}
	fv := e.get(fr, cc.Value)
	return e.callValue(fv, args, fr)
}

// initCall runs a call during package initialisation; what cannot be modelled becomes poison.
func (e *Exec) initCall(fr *frame, in *ssa.Call) (res Value) {
	if f, ok := in.Call.Value.(*ssa.Function); ok && f.Name() == "init" && f.Pkg != fr.fn.Pkg {
		return nil // dependency init: done lazily when one of its globals is touched
	}
	savedDepth, savedFrame := e.depth, e.curFrame
	defer func() {
		if r := recover(); r != nil {
			switch v := r.(type) {
			case unsupported:
				res = Poison{v.msg}
			case *goPanic:
				res = Poison{"panic during init: " + v.msg}
			case unwindFail:
				res = Poison{"unwind during init"}
			case engineBug:
				res = Poison{"engine limitation during init: " + v.msg}
			case runtime.Error:
				res = Poison{"engine limitation during init: " + v.Error()}
			default:
				panic(r)
			}
			e.depth, e.curFrame = savedDepth, savedFrame
			if tt, ok := in.Type().(*types.Tuple); ok {
				t := make(Tuple, tt.Len())
				for i := range t {
					t[i] = res
				}
				res = t
			}
		}
	}()
	return e.doCall(fr, &in.Call, in)
}

func (e *Exec) lookupMethod(t types.Type, m *types.Func) *ssa.Function {
	sel := e.prog.MethodSets.MethodSet(t).Lookup(m.Pkg(), m.Name())
	if sel == nil {
		panic(engineBug{fmt.Sprintf("method %s not found on %s", m.Name(), t)})
	}
	fn := e.prog.MethodValue(sel)
	if fn == nil {
		panic(unsupported{fmt.Sprintf("abstract method %s on %s", m.Name(), t)})
	}
	return fn
}

// ---------------------------------------------------------------------------------------------
// instructions

func (e *Exec) exec(fr *frame, instr ssa.Instruction) {
	switch in := instr.(type) {
	case *ssa.DebugRef:
	case *ssa.Alloc:
		et := in.Type().(*types.Pointer).Elem()
		o := e.newObject(e.zero(et), et, "alloc "+in.Comment)
		fr.env[in] = &Ptr{Loc: Loc{Obj: o}}
	case *ssa.UnOp:
		fr.env[in] = e.unop(fr, in)
	case *ssa.BinOp:
		e.lastSite = e.site(fr, in)
		fr.env[in] = e.binop(in.Op, in.X.Type(), e.get(fr, in.X), e.get(fr, in.Y), in.Y.Type())
	case *ssa.Call:
		if e.initing > 0 {
			fr.env[in] = e.initCall(fr, in)
			return
		}
		fr.env[in] = e.doCall(fr, &in.Call, in)
	case *ssa.ChangeInterface:
		fr.env[in] = e.get(fr, in.X)
	case *ssa.ChangeType:
		fr.env[in] = e.get(fr, in.X)
	case *ssa.Convert:
		e.lastSite = e.site(fr, in)
		fr.env[in] = e.convert(in.X.Type(), in.Type(), e.get(fr, in.X))
	case *ssa.MultiConvert:
		e.lastSite = e.site(fr, in)
		fr.env[in] = e.convert(in.X.Type(), in.Type(), e.get(fr, in.X))
	case *ssa.SliceToArrayPointer:
		e.lastSite = e.site(fr, in)
		s := e.get(fr, in.X).(*Slice)
		n := in.Type().(*types.Pointer).Elem().Underlying().(*types.Array).Len()
		e.guard(e.tc.Sle(e.c64(n), s.Len), "slice", "slice to array pointer: length too short")
		if s.Base.Obj == nil {
			fr.env[in] = &Ptr{}
			return
		}
		if !s.Off.IsConst() || s.Off.Val != 0 {
			panic(unsupported{"SliceToArrayPointer with offset"})
		}
		fr.env[in] = &Ptr{Loc: s.Base}
	case *ssa.MakeInterface:
		fr.env[in] = &Iface{T: in.X.Type(), V: e.get(fr, in.X)}
	case *ssa.Extract:
		fr.env[in] = e.get(fr, in.Tuple).(Tuple)[in.Index]
	case *ssa.Slice:
		e.lastSite = e.site(fr, in)
		fr.env[in] = e.sliceOp(fr, in)
	case *ssa.Return, *ssa.Jump, *ssa.If, *ssa.Panic:
		panic(engineBug{"terminator in exec"})
	case *ssa.RunDefers:
		e.runDefers(fr)
	case *ssa.Store:
		e.lastSite = e.site(fr, in)
		p := e.ptrOf(e.get(fr, in.Addr))
		e.store(p, e.get(fr, in.Val))
	case *ssa.Defer:
		var fv Value
		var args []Value
		cc := &in.Call
		if cc.IsInvoke() {
			recv := e.get(fr, cc.Value).(*Iface)
			if recv.T == nil {
				panic(&goPanic{kind: "nil", site: e.site(fr, in), msg: "defer invoke on nil interface"})
			}
			fn := e.lookupMethod(recv.T, cc.Method)
			fv = &Closure{Fn: fn}
			args = append(args, recv.V)
		} else {
			switch f := cc.Value.(type) {
			case *ssa.Builtin:
				fv = &Closure{Intrinsic: "builtin:" + f.Name()}
			default:
				fv = e.get(fr, cc.Value)
			}
		}
		for _, a := range cc.Args {
			args = append(args, e.get(fr, a))
		}
		fr.defers = append(fr.defers, deferred{fn: fv, args: args, inst: in})
	case *ssa.Go:
		e.goStmt(fr, in)
	case *ssa.MakeChan:
		n := e.get(fr, in.Size).(*Term)
		if !n.IsConst() {
			panic(unsupported{"MakeChan with symbolic size"})
		}
		e.objSeq++
		fr.env[in] = &ChanV{id: e.objSeq, cap: int(n.Val), et: in.Type().Underlying().(*types.Chan).Elem()}
	case *ssa.Send:
		e.chanSend(fr, e.get(fr, in.Chan), e.get(fr, in.X))
	case *ssa.Select:
		fr.env[in] = e.selectStmt(fr, in)
	case *ssa.MakeClosure:
		cl := &Closure{Fn: in.Fn.(*ssa.Function)}
		for _, b := range in.Bindings {
			cl.Env = append(cl.Env, e.get(fr, b))
		}
		fr.env[in] = cl
	case *ssa.MakeMap:
		mt := in.Type().Underlying().(*types.Map)
		e.objSeq++
		fr.env[in] = &MapV{id: e.objSeq, kt: mt.Key(), vt: mt.Elem()}
	case *ssa.MapUpdate:
		e.lastSite = e.site(fr, in)
		m, _ := e.get(fr, in.Map).(*MapV)
		if m == nil {
			panic(&goPanic{kind: "nil", site: e.lastSite, msg: "assignment to entry in nil map"})
		}
		e.mapUpdate(m, e.get(fr, in.Key), e.get(fr, in.Value))
	case *ssa.Lookup:
		e.lastSite = e.site(fr, in)
		fr.env[in] = e.lookup(fr, in)
	case *ssa.Range:
		fr.env[in] = e.rangeInit(e.get(fr, in.X), in.X.Type())
	case *ssa.Next:
		fr.env[in] = e.rangeNext(e.get(fr, in.Iter), in)
	case *ssa.MakeSlice:
		e.lastSite = e.site(fr, in)
		ln := e.get(fr, in.Len).(*Term)
		cp := e.get(fr, in.Cap).(*Term)
		ln, cp = e.to64(ln, in.Len.Type()), e.to64(cp, in.Cap.Type())
		e.guard(e.tc.BAnd(e.tc.Sle(e.c64(0), ln), e.tc.Sle(ln, cp)), "makeslice", "makeslice: len out of range")
		ncap := e.concretize(cp, 0, e.job.MaxAlloc)
		et := in.Type().Underlying().(*types.Slice).Elem()
		fr.env[in] = e.makeSlice(et, ln, ncap, "makeslice@"+e.lastSite)
	case *ssa.Field:
		x := e.get(fr, in.X)
		if _, isP := x.(Poison); isP {
			fr.env[in] = x
			return
		}
		fr.env[in] = x.(*StructV).F[in.Field]
	case *ssa.FieldAddr:
		e.lastSite = e.site(fr, in)
		xv := e.get(fr, in.X)
		if _, isP := xv.(Poison); isP {
			panic(unsupported{"field address of poison"})
		}
		p := xv.(*Ptr)
		if p.IsNil() {
			panic(&goPanic{kind: "nil", site: e.lastSite, msg: "nil pointer dereference (field " + fieldName(in) + ")"})
		}
		fr.env[in] = &Ptr{Loc: Loc{Obj: p.Obj, Path: extend(p.Path, Step{Field: in.Field})}}
	case *ssa.Index:
		e.lastSite = e.site(fr, in)
		fr.env[in] = e.indexOp(fr, in)
	case *ssa.IndexAddr:
		e.lastSite = e.site(fr, in)
		fr.env[in] = e.indexAddr(fr, in)
	case *ssa.Phi:
		for i, pred := range in.Block().Preds {
			if pred == fr.prev {
				fr.env[in] = e.get(fr, in.Edges[i])
				return
			}
		}
		panic(engineBug{"phi: no matching predecessor"})
	case *ssa.TypeAssert:
		e.lastSite = e.site(fr, in)
		fr.env[in] = e.typeAssert(in, e.get(fr, in.X))
	default:
		panic(unsupported{fmt.Sprintf("instruction %T in %s", instr, fr.fn)})
	}
}

func fieldName(in *ssa.FieldAddr) string {
	st, ok := in.X.Type().Underlying().(*types.Pointer).Elem().Underlying().(*types.Struct)
	if ok {
		return st.Field(in.Field).Name()
	}
	return "?"
}

func (e *Exec) ptrOf(v Value) *Ptr {
	p, ok := v.(*Ptr)
	if !ok {
		if _, isP := v.(Poison); isP {
			panic(unsupported{"dereference of poison"})
		}
		panic(engineBug{fmt.Sprintf("expected pointer, got %T", v)})
	}
	if p.IsNil() {
		panic(&goPanic{kind: "nil", site: e.lastSite, msg: "nil pointer dereference"})
	}
	return p
}

func (e *Exec) checkWindow(p *Ptr) {
	if !p.Unsafe || len(p.Path) == 0 {
		return
	}
	idx := p.Path[len(p.Path)-1].Idx
	if idx == nil {
		return
	}
	// Oracle for unchecked (unsafe) accesses: the access must stay inside the allocation the pointer
	// was derived from. Harness inputs are exactly-sized allocations, so this is "inside the input".
	a := e.arrayAt(Loc{Obj: p.Obj, Path: p.Path[:len(p.Path)-1]})
	ok := e.tc.BAnd(e.tc.Sle(e.c64(0), idx), e.tc.Slt(idx, e.c64(int64(len(a.E)))))
	e.guard(ok, "oob-unsafe", "unchecked access outside the allocation (input buffer)")
}

func (e *Exec) load(p *Ptr, t types.Type) Value {
	e.checkWindow(p)
	get, _ := e.cell(p.Loc)
	v := get()
	// reinterpretation: *string through *[]byte
	if t != nil && isString(t) {
		if s, ok := v.(*Slice); ok {
			return &Str{Base: s.Base, Off: s.Off, Len: s.Len}
		}
	}
	switch v.(type) {
	case *StructV, *ArrayV:
		return cloneValue(v)
	}
	return v
}

func (e *Exec) store(p *Ptr, v Value) {
	e.checkWindow(p)
	if p.Obj.ro {
		panic(unsupported{"store into read-only object"})
	}
	_, set := e.cell(p.Loc)
	switch v.(type) {
	case *StructV, *ArrayV:
		v = cloneValue(v)
	}
	set(v)
}

func (e *Exec) unop(fr *frame, in *ssa.UnOp) Value {
	x := e.get(fr, in.X)
	switch in.Op {
	case token.MUL:
		e.lastSite = e.site(fr, in)
		return e.load(e.ptrOf(x), in.Type())
	case token.SUB:
		t := x.(*Term)
		if isFloat(in.X.Type()) {
			return e.tc.FP(fmt.Sprintf("neg%d", t.W), t.W, t)
		}
		return e.tc.Neg(t)
	case token.XOR:
		return e.tc.Not(x.(*Term))
	case token.NOT:
		return e.tc.BNot(x.(*Term))
	case token.ARROW:
		e.lastSite = e.site(fr, in)
		return e.chanRecv(fr, x, in.CommaOk)
	}
	panic(unsupported{"unop " + in.Op.String()})
}

func (e *Exec) to64(t *Term, typ types.Type) *Term {
	if t.W == 64 {
		return t
	}
	if isSigned(typ) {
		return e.tc.SExt(t, 64)
	}
	return e.tc.ZExt(t, 64)
}

func (e *Exec) binop(op token.Token, xt types.Type, xv, yv Value, yt types.Type) Value {
	tc := e.tc
	if _, ok := xv.(Poison); ok {
		return xv
	}
	if _, ok := yv.(Poison); ok {
		return yv
	}
	switch op {
	case token.EQL:
		return e.equal(xv, yv, xt)
	case token.NEQ:
		return tc.BNot(e.equal(xv, yv, xt))
	}
	if isString(xt) {
		xs, ys := xv.(*Str), yv.(*Str)
		switch op {
		case token.ADD:
			return e.strConcat(xs, ys)
		case token.LSS, token.LEQ, token.GTR, token.GEQ:
			a, ok1 := e.concreteString(xs)
			b, ok2 := e.concreteString(ys)
			if ok1 && ok2 {
				switch op {
				case token.LSS:
					return tc.Bool(a < b)
				case token.LEQ:
					return tc.Bool(a <= b)
				case token.GTR:
					return tc.Bool(a > b)
				case token.GEQ:
					return tc.Bool(a >= b)
				}
			}
		}
		panic(unsupported{"string binop " + op.String()})
	}
	x, ok1 := xv.(*Term)
	y, ok2 := yv.(*Term)
	if !ok1 || !ok2 {
		panic(unsupported{fmt.Sprintf("binop %s on %T,%T", op, xv, yv)})
	}
	if isFloat(xt) {
		w := x.W
		n := func(s string) string { return fmt.Sprintf("%s%d", s, w) }
		switch op {
		case token.ADD:
			return tc.FP(n("add"), w, x, y)
		case token.SUB:
			return tc.FP(n("sub"), w, x, y)
		case token.MUL:
			return tc.FP(n("mul"), w, x, y)
		case token.QUO:
			return tc.FP(n("div"), w, x, y)
		case token.LSS:
			return tc.FP(n("lt"), 0, x, y)
		case token.LEQ:
			return tc.FP(n("le"), 0, x, y)
		case token.GTR:
			return tc.FP(n("lt"), 0, y, x)
		case token.GEQ:
			return tc.FP(n("le"), 0, y, x)
		}
		panic(unsupported{"float binop " + op.String()})
	}
	if isBool(xt) {
		switch op {
		case token.AND, token.LAND:
			return tc.BAnd(x, y)
		case token.OR, token.LOR:
			return tc.BOr(x, y)
		}
		panic(unsupported{"bool binop " + op.String()})
	}
	signed := isSigned(xt)
	switch op {
	case token.ADD:
		return tc.Add(x, y)
	case token.SUB:
		return tc.Sub(x, y)
	case token.MUL:
		return tc.Mul(x, y)
	case token.QUO, token.REM:
		e.guard(tc.BNot(tc.Eq(y, tc.Const(y.W, 0))), "divide", "integer divide by zero")
		if op == token.QUO {
			if signed {
				if e.tc.nonneg(x) && e.tc.nonneg(y) {
					return tc.bin(OpUDiv, x, y)
				}
				return tc.bin(OpSDiv, x, y)
			}
			return tc.bin(OpUDiv, x, y)
		}
		if signed {
			if e.tc.nonneg(x) && e.tc.nonneg(y) {
				return tc.bin(OpURem, x, y)
			}
			return tc.bin(OpSRem, x, y)
		}
		return tc.bin(OpURem, x, y)
	case token.AND:
		return tc.And(x, y)
	case token.OR:
		return tc.Or(x, y)
	case token.XOR:
		return tc.Xor(x, y)
	case token.AND_NOT:
		return tc.And(x, tc.Not(y))
	case token.SHL, token.SHR:
		if isSigned(yt) && !e.tc.nonneg(y) {
			e.guard(tc.Sle(tc.Const(y.W, 0), y), "shift", "negative shift amount")
		}
		w := x.W
		var cnt *Term
		var inRange *Term = tc.True
		if y.W <= w {
			cnt = tc.ZExt(y, w)
		} else {
			inRange = tc.Ult(y, tc.Const(y.W, uint64(w)))
			cnt = tc.Extract(y, w-1, 0)
		}
		var r, over *Term
		switch {
		case op == token.SHL:
			r, over = tc.Shl(x, cnt), tc.Const(w, 0)
		case signed:
			r, over = tc.AShr(x, cnt), tc.AShr(x, tc.Const(w, uint64(w-1)))
		default:
			r, over = tc.LShr(x, cnt), tc.Const(w, 0)
		}
		return tc.Ite(inRange, r, over)
	case token.LSS:
		if signed {
			return tc.Slt(x, y)
		}
		return tc.Ult(x, y)
	case token.LEQ:
		if signed {
			return tc.Sle(x, y)
		}
		return tc.Ule(x, y)
	case token.GTR:
		if signed {
			return tc.Slt(y, x)
		}
		return tc.Ult(y, x)
	case token.GEQ:
		if signed {
			return tc.Sle(y, x)
		}
		return tc.Ule(y, x)
	}
	panic(unsupported{"binop " + op.String()})
}

// equal builds the term for x == y.
func (e *Exec) equal(xv, yv Value, t types.Type) *Term {
	tc := e.tc
	switch x := xv.(type) {
	case *Term:
		y := yv.(*Term)
		if t != nil && isFloat(t) {
			return tc.FP(fmt.Sprintf("eq%d", x.W), 0, x, y)
		}
		return tc.Eq(x, y)
	case *Str:
		return e.strEqual(x, yv.(*Str))
	case *Ptr:
		y := yv.(*Ptr)
		if x.IsNil() || y.IsNil() {
			return tc.Bool(x.IsNil() && y.IsNil())
		}
		same, dec := sameLoc(x.Loc, y.Loc)
		if !dec {
			// same object, index steps differ symbolically
			a, b := x.Path[len(x.Path)-1].Idx, y.Path[len(y.Path)-1].Idx
			if a != nil && b != nil {
				return tc.Eq(a, b)
			}
			panic(unsupported{"undecidable pointer comparison"})
		}
		return tc.Bool(same)
	case *Iface:
		y := yv.(*Iface)
		if x == nil || x.T == nil || y == nil || y.T == nil {
			return tc.Bool((x == nil || x.T == nil) && (y == nil || y.T == nil))
		}
		if !types.Identical(x.T, y.T) {
			return tc.False
		}
		return e.equal(x.V, y.V, x.T)
	case *StructV:
		y := yv.(*StructV)
		r := tc.True
		var st *types.Struct
		if t != nil {
			st, _ = t.Underlying().(*types.Struct)
		}
		for i := range x.F {
			var ft types.Type
			if st != nil {
				ft = st.Field(i).Type()
			}
			r = tc.BAnd(r, e.equal(x.F[i], y.F[i], ft))
		}
		return r
	case *ArrayV:
		y := yv.(*ArrayV)
		r := tc.True
		var et types.Type
		if t != nil {
			if at, ok := t.Underlying().(*types.Array); ok {
				et = at.Elem()
			}
		}
		for i := range x.E {
			r = tc.BAnd(r, e.equal(x.E[i], y.E[i], et))
		}
		return r
	case *Slice:
		y := yv.(*Slice)
		// only comparison with nil is legal
		if y.Base.Obj == nil && y.Len.IsConst() && y.Len.Val == 0 {
			return tc.Bool(x.Base.Obj == nil)
		}
		if x.Base.Obj == nil {
			return tc.Bool(y.Base.Obj == nil)
		}
	case *Closure:
		y, _ := yv.(*Closure)
		return tc.Bool((x == nil) == (y == nil))
	case *MapV:
		y, _ := yv.(*MapV)
		return tc.Bool(x == y)
	case *ChanV:
		y, _ := yv.(*ChanV)
		return tc.Bool(x == y)
	}
	panic(unsupported{fmt.Sprintf("equality on %T", xv)})
}

func (e *Exec) strBytes(s *Str, i *Term) *Term {
	a := e.arrayAt(s.Base)
	idx := e.tc.Add(s.Off, i)
	if idx.IsConst() {
		return a.E[idx.Val].(*Term)
	}
	return e.selectElem(a, idx).(*Term)
}

func (e *Exec) strEqual(x, y *Str) *Term {
	tc := e.tc
	if x.Opaque || y.Opaque {
		panic(unsupported{"comparison of opaque string"})
	}
	leq := tc.Eq(x.Len, y.Len)
	if leq.IsFalse() {
		return leq
	}
	// bound the length by a concrete number
	var maxn int64 = -1
	for _, s := range []*Str{x, y} {
		if s.Len.IsConst() {
			if maxn < 0 || int64(s.Len.Val) < maxn {
				maxn = int64(s.Len.Val)
			}
		} else if s.Base.Obj != nil {
			c := int64(len(e.arrayAt(s.Base).E))
			if maxn < 0 || c < maxn {
				maxn = c
			}
		}
	}
	if maxn < 0 {
		maxn = 0
	}
	r := leq
	for k := int64(0); k < maxn; k++ {
		kt := e.c64(k)
		inl := tc.Slt(kt, x.Len)
		if inl.IsFalse() {
			break
		}
		if x.Base.Obj == nil || y.Base.Obj == nil {
			break
		}
		// guard reads: only when k < len
		var bx, by *Term
		func() {
			bx = e.safeStrByte(x, kt)
			by = e.safeStrByte(y, kt)
		}()
		r = tc.BAnd(r, tc.BOr(tc.BNot(inl), tc.Eq(bx, by)))
	}
	return r
}

// safeStrByte reads byte k of s; out-of-capacity indexes yield 0 (they are masked by a length guard).
func (e *Exec) safeStrByte(s *Str, k *Term) *Term {
	a := e.arrayAt(s.Base)
	idx := e.tc.Add(s.Off, k)
	if idx.IsConst() {
		if int(idx.Val) >= len(a.E) {
			return e.tc.Const(8, 0)
		}
		return a.E[idx.Val].(*Term)
	}
	return e.selectElem(a, idx).(*Term)
}

func (e *Exec) strConcat(x, y *Str) *Str {
	if x.Opaque || y.Opaque {
		return &Str{Opaque: true, Off: e.c64(0), Len: e.internalLen()}
	}
	if y.Len.IsConst() && y.Len.Val == 0 {
		return x
	}
	if x.Len.IsConst() && x.Len.Val == 0 {
		return y
	}
	xn := e.concretize(x.Len, 0, e.job.MaxAlloc)
	yn := e.concretize(y.Len, 0, e.job.MaxAlloc)
	a := &ArrayV{E: make([]Value, xn+yn)}
	for i := int64(0); i < xn; i++ {
		a.E[i] = e.strBytes(x, e.c64(i))
	}
	for i := int64(0); i < yn; i++ {
		a.E[xn+i] = e.strBytes(y, e.c64(i))
	}
	o := e.newObject(a, nil, "strconcat")
	o.ro = true
	return &Str{Base: Loc{Obj: o}, Off: e.c64(0), Len: e.c64(xn + yn)}
}

func (e *Exec) internalLen() *Term {
	v := e.internalVar(64)
	e.assume(e.tc.Ult(v, e.c64(1<<20)))
	return v
}

func (e *Exec) convert(from, to types.Type, v Value) Value {
	tc := e.tc
	if _, ok := v.(Poison); ok {
		return v
	}
	fu, tu := from.Underlying(), to.Underlying()
	// type parameters do not occur (generics are instantiated)
	switch tt := tu.(type) {
	case *types.Basic:
		if tt.Kind() == types.UnsafePointer {
			switch x := v.(type) {
			case *Ptr:
				n := *x
				n.Unsafe = true
				return &n
			}
			panic(unsupported{"conversion to unsafe.Pointer from " + from.String()})
		}
		if tt.Info()&types.IsString != 0 {
			switch x := v.(type) {
			case *Str:
				return x
			case *Slice:
				// string([]byte): copy
				if x.Base.Obj == nil {
					return &Str{Off: e.c64(0), Len: e.c64(0)}
				}
				n := e.concretize(x.Len, 0, e.job.MaxAlloc)
				a := &ArrayV{E: make([]Value, n)}
				src := e.arrayAt(x.Base)
				for i := int64(0); i < n; i++ {
					a.E[i] = e.elemAt(src, tc.Add(x.Off, e.c64(i)))
				}
				o := e.newObject(a, nil, "string(bytes)")
				o.ro = true
				return &Str{Base: Loc{Obj: o}, Off: e.c64(0), Len: e.c64(n)}
			case *Term:
				panic(unsupported{"string(rune)"})
			}
		}
		x, ok := v.(*Term)
		if !ok {
			panic(unsupported{fmt.Sprintf("convert %s -> %s", from, to)})
		}
		fb, ok := fu.(*types.Basic)
		if !ok {
			panic(unsupported{fmt.Sprintf("convert %s -> %s", from, to)})
		}
		tw := e.basicWidth(tt)
		switch {
		case fb.Info()&types.IsInteger != 0 && tt.Info()&types.IsInteger != 0:
			if tw <= x.W {
				return tc.Extract(x, tw-1, 0)
			}
			if isSigned(from) {
				return tc.SExt(x, tw)
			}
			return tc.ZExt(x, tw)
		case fb.Info()&types.IsInteger != 0 && tt.Info()&types.IsFloat != 0:
			if isSigned(from) {
				return tc.FP(fmt.Sprintf("fromint%d_%d", x.W, tw), tw, x)
			}
			return tc.FP(fmt.Sprintf("fromuint%d_%d", x.W, tw), tw, x)
		case fb.Info()&types.IsFloat != 0 && tt.Info()&types.IsInteger != 0:
			// Go: behaviour for out-of-range values is implementation-defined; amd64 semantics are not modelled
			if isSigned(to) {
				return tc.FP(fmt.Sprintf("toint%d_%d", x.W, tw), tw, x)
			}
			return tc.FP(fmt.Sprintf("touint%d_%d", x.W, tw), tw, x)
		case fb.Info()&types.IsFloat != 0 && tt.Info()&types.IsFloat != 0:
			if x.W == tw {
				return x
			}
			return tc.FP(fmt.Sprintf("cvt%dto%d", x.W, tw), tw, x)
		case fb.Kind() == types.UnsafePointer:
			panic(unsupported{"unsafe.Pointer -> uintptr"})
		}
	case *types.Pointer:
		if p, ok := v.(*Ptr); ok {
			// unsafe.Pointer -> *T (or *T -> *T)
			return p
		}
	case *types.Slice:
		if s, ok := v.(*Str); ok {
			// []byte(string): copy
			if s.Opaque {
				panic(unsupported{"[]byte(opaque string)"})
			}
			n := e.concretize(s.Len, 0, e.job.MaxAlloc)
			sl := e.makeSlice(tt.Elem(), e.c64(n), n, "bytes(string)")
			if n > 0 {
				dst := e.arrayAt(sl.Base)
				for i := int64(0); i < n; i++ {
					dst.E[i] = e.strBytes(s, e.c64(i))
				}
			}
			return sl
		}
		if s, ok := v.(*Slice); ok {
			return s
		}
	}
	panic(unsupported{fmt.Sprintf("convert %s -> %s (%T)", from, to, v)})
}

func (e *Exec) elemAt(a *ArrayV, idx *Term) Value {
	if idx.IsConst() {
		k := int(idx.Val)
		if k < 0 || k >= len(a.E) {
			panic(engineBug{fmt.Sprintf("elemAt %d of %d", k, len(a.E))})
		}
		return a.E[k]
	}
	return e.selectElem(a, idx)
}

func (e *Exec) makeSlice(et types.Type, ln *Term, ncap int64, tag string) *Slice {
	a := &ArrayV{E: make([]Value, ncap)}
	if ncap > 0 {
		z := e.zero(et)
		switch z.(type) {
		case *StructV, *ArrayV:
			for i := range a.E {
				a.E[i] = e.zero(et)
			}
		default:
			for i := range a.E {
				a.E[i] = z
			}
		}
	}
	o := e.newObject(a, types.NewArray(et, ncap), tag)
	return &Slice{Base: Loc{Obj: o}, Off: e.c64(0), Len: ln, Cap: e.c64(ncap)}
}

func (e *Exec) sliceOp(fr *frame, in *ssa.Slice) Value {
	tc := e.tc
	x := e.get(fr, in.X)
	var lo, hi, max *Term
	if in.Low != nil {
		lo = e.to64(e.get(fr, in.Low).(*Term), in.Low.Type())
	}
	if in.High != nil {
		hi = e.to64(e.get(fr, in.High).(*Term), in.High.Type())
	}
	if in.Max != nil {
		max = e.to64(e.get(fr, in.Max).(*Term), in.Max.Type())
	}
	if lo == nil {
		lo = e.c64(0)
	}
	switch v := x.(type) {
	case *Str:
		if hi == nil {
			hi = v.Len
		}
		ok := tc.BAnd(tc.Sle(e.c64(0), lo), tc.BAnd(tc.Sle(lo, hi), tc.Sle(hi, v.Len)))
		e.guard(ok, "slice", "slice bounds out of range (string)")
		return &Str{Base: v.Base, Off: tc.Add(v.Off, lo), Len: tc.Sub(hi, lo), Opaque: v.Opaque}
	case *Slice:
		if hi == nil {
			hi = v.Len
		}
		cp := v.Cap
		if max == nil {
			max = cp
		}
		ok := tc.BAnd(tc.Sle(e.c64(0), lo), tc.BAnd(tc.Sle(lo, hi), tc.BAnd(tc.Sle(hi, max), tc.Sle(max, cp))))
		e.guard(ok, "slice", "slice bounds out of range")
		if v.Base.Obj == nil {
			return &Slice{Off: e.c64(0), Len: e.c64(0), Cap: e.c64(0)}
		}
		return &Slice{Base: v.Base, Off: tc.Add(v.Off, lo), Len: tc.Sub(hi, lo), Cap: tc.Sub(max, lo)}
	case *Ptr:
		// pointer to array
		if v.IsNil() {
			panic(&goPanic{kind: "nil", site: e.lastSite, msg: "slice of nil array pointer"})
		}
		a := e.arrayAt(v.Loc)
		n := e.c64(int64(len(a.E)))
		if hi == nil {
			hi = n
		}
		if max == nil {
			max = n
		}
		ok := tc.BAnd(tc.Sle(e.c64(0), lo), tc.BAnd(tc.Sle(lo, hi), tc.BAnd(tc.Sle(hi, max), tc.Sle(max, n))))
		e.guard(ok, "slice", "slice bounds out of range (array)")
		return &Slice{Base: v.Loc, Off: lo, Len: tc.Sub(hi, lo), Cap: tc.Sub(max, lo)}
	}
	panic(unsupported{fmt.Sprintf("slice of %T", x)})
}

func (e *Exec) indexAddr(fr *frame, in *ssa.IndexAddr) Value {
	tc := e.tc
	x := e.get(fr, in.X)
	idx := e.to64(e.get(fr, in.Index).(*Term), in.Index.Type())
	switch v := x.(type) {
	case *Slice:
		ok := tc.BAnd(tc.Sle(e.c64(0), idx), tc.Slt(idx, v.Len))
		e.guard(ok, "index", "index out of range")
		abs := tc.Add(v.Off, idx)
		abs = e.concreteIfComposite(v.Base, abs)
		return &Ptr{Loc: Loc{Obj: v.Base.Obj, Path: extend(v.Base.Path, Step{Idx: abs})},
			WinLo: v.Off, WinHi: tc.Add(v.Off, v.Len)}
	case *Ptr:
		if v.IsNil() {
			panic(&goPanic{kind: "nil", site: e.lastSite, msg: "index of nil array pointer"})
		}
		a := e.arrayAt(v.Loc)
		n := e.c64(int64(len(a.E)))
		ok := tc.BAnd(tc.Sle(e.c64(0), idx), tc.Slt(idx, n))
		e.guard(ok, "index", "index out of range")
		idx = e.concreteIfComposite(v.Loc, idx)
		return &Ptr{Loc: Loc{Obj: v.Obj, Path: extend(v.Path, Step{Idx: idx})}, WinLo: e.c64(0), WinHi: n}
	}
	panic(unsupported{fmt.Sprintf("IndexAddr on %T", x)})
}

// concreteIfComposite concretises idx when the array elements are not scalars.
func (e *Exec) concreteIfComposite(base Loc, idx *Term) *Term {
	if idx.IsConst() {
		return idx
	}
	a := e.arrayAt(base)
	if len(a.E) == 0 {
		return idx
	}
	if _, ok := a.E[0].(*Term); ok {
		return idx
	}
	k := e.concretize(idx, 0, int64(len(a.E)-1))
	return e.c64(k)
}

func (e *Exec) indexOp(fr *frame, in *ssa.Index) Value {
	tc := e.tc
	x := e.get(fr, in.X)
	idx := e.to64(e.get(fr, in.Index).(*Term), in.Index.Type())
	switch v := x.(type) {
	case *ArrayV:
		n := e.c64(int64(len(v.E)))
		e.guard(tc.BAnd(tc.Sle(e.c64(0), idx), tc.Slt(idx, n)), "index", "index out of range")
		return e.elemAt(v, idx)
	case *Str:
		e.guard(tc.BAnd(tc.Sle(e.c64(0), idx), tc.Slt(idx, v.Len)), "index", "index out of range (string)")
		if v.Opaque {
			panic(unsupported{"index of opaque string"})
		}
		return e.strBytes(v, idx)
	}
	panic(unsupported{fmt.Sprintf("Index on %T", x)})
}

func (e *Exec) typeAssert(in *ssa.TypeAssert, xv Value) Value {
	x, _ := xv.(*Iface)
	ok := false
	if x != nil && x.T != nil {
		if it, isI := in.AssertedType.Underlying().(*types.Interface); isI {
			ok = types.Implements(x.T, it)
			if !ok {
				// methods with pointer receivers
				ms := e.prog.MethodSets.MethodSet(x.T)
				ok = true
				for i := 0; i < it.NumMethods(); i++ {
					m := it.Method(i)
					if ms.Lookup(m.Pkg(), m.Name()) == nil {
						ok = false
					}
				}
			}
		} else {
			ok = types.Identical(x.T, in.AssertedType)
		}
	}
	var res Value
	if ok {
		if _, isI := in.AssertedType.Underlying().(*types.Interface); isI {
			res = x
		} else {
			res = x.V
		}
	}
	if in.CommaOk {
		if !ok {
			res = e.zero(in.AssertedType)
		}
		return Tuple{res, e.tc.Bool(ok)}
	}
	if !ok {
		panic(&goPanic{kind: "typeassert", site: e.lastSite, msg: "interface conversion failed: " + in.AssertedType.String()})
	}
	return res
}

package main

import (
	"fmt"
	"math"
	"math/bits"
	"strconv"
	"strings"
)

// Op is a term operator.
type Op uint8

const (
	OpConst Op = iota // bit-vector constant (W>0) or bool constant (W==0)
	OpVar
	// bit-vector -> bit-vector
	OpAdd
	OpSub
	OpMul
	OpUDiv
	OpSDiv
	OpURem
	OpSRem
	OpAnd
	OpOr
	OpXor
	OpNot
	OpNeg
	OpShl
	OpLShr
	OpAShr
	OpConcat
	OpExtract // Val = hi<<8|lo
	OpZExt    // W = new width
	OpSExt
	OpIte // args: cond, a, b (bv or bool)
	// -> bool
	OpEq
	OpUlt
	OpUle
	OpSlt
	OpSle
	OpBNot
	OpBAnd
	OpBOr
	// floating point; operands are IEEE bit patterns (bit-vectors), Name selects the operation
	OpFP
)

// Term is a hash-consed SMT term.
type Term struct {
	Op   Op
	W    int // width in bits; 0 = Bool
	Val  uint64
	Name string
	Args []*Term
	id   int
}

// TermCtx owns the hash-consing table.
type TermCtx struct {
	tab   map[string]*Term
	next  int
	True  *Term
	False *Term
	// facts of the current path (unsigned bounds implied by the path condition); they make the
	// simplifier context dependent, so they are reset whenever a new path starts
	ubm map[*Term]uint64
	lbm map[*Term]uint64
}

// ResetFacts forgets the path facts.
func (c *TermCtx) ResetFacts() {
	c.ubm = map[*Term]uint64{}
	c.lbm = map[*Term]uint64{}
}

// Learn records the unsigned bounds a path-condition literal implies.
func (c *TermCtx) Learn(t *Term) {
	if c.ubm == nil {
		c.ResetFacts()
	}
	setUB := func(a *Term, v uint64) {
		if a.IsConst() {
			return
		}
		if old, ok := c.ubm[a]; !ok || v < old {
			c.ubm[a] = v
		}
	}
	setLB := func(a *Term, v uint64) {
		if a.IsConst() {
			return
		}
		if old, ok := c.lbm[a]; !ok || v > old {
			c.lbm[a] = v
		}
	}
	switch t.Op {
	case OpBAnd:
		c.Learn(t.Args[0])
		c.Learn(t.Args[1])
	case OpUlt:
		a, b := t.Args[0], t.Args[1]
		if b.IsConst() && b.Val > 0 {
			setUB(a, b.Val-1)
		}
		if a.IsConst() && a.Val < mask(a.W) {
			setLB(b, a.Val+1)
		}
	case OpEq:
		a, b := t.Args[0], t.Args[1]
		if a.W == 0 {
			return
		}
		if a.IsConst() {
			a, b = b, a
		}
		if b.IsConst() {
			setUB(a, b.Val)
			setLB(a, b.Val)
		}
	case OpBNot:
		u := t.Args[0]
		if u.Op == OpUlt {
			a, b := u.Args[0], u.Args[1]
			if b.IsConst() { // not (a < K)  =>  a >= K
				setLB(a, b.Val)
			}
			if a.IsConst() { // not (K < b)  =>  b <= K
				setUB(b, a.Val)
			}
		}
	}
}

// lbound returns a cheap unsigned lower bound of t.
func (c *TermCtx) lbound(t *Term) uint64 {
	var r uint64
	switch t.Op {
	case OpConst:
		return t.Val
	case OpZExt:
		r = c.lbound(t.Args[0])
	}
	if c.lbm != nil {
		if v, ok := c.lbm[t]; ok && v > r {
			r = v
		}
	}
	return r
}

func NewTermCtx() *TermCtx {
	c := &TermCtx{tab: map[string]*Term{}}
	c.True = c.mk(&Term{Op: OpConst, W: 0, Val: 1})
	c.False = c.mk(&Term{Op: OpConst, W: 0, Val: 0})
	return c
}

func (c *TermCtx) mk(t *Term) *Term {
	var sb strings.Builder
	sb.WriteByte(byte(t.Op))
	sb.WriteString(strconv.Itoa(t.W))
	sb.WriteByte(':')
	sb.WriteString(strconv.FormatUint(t.Val, 16))
	sb.WriteByte(':')
	sb.WriteString(t.Name)
	for _, a := range t.Args {
		sb.WriteByte(',')
		sb.WriteString(strconv.Itoa(a.id))
	}
	k := sb.String()
	if e, ok := c.tab[k]; ok {
		return e
	}
	c.next++
	t.id = c.next
	c.tab[k] = t
	return t
}

func mask(w int) uint64 {
	if w >= 64 {
		return ^uint64(0)
	}
	return (uint64(1) << uint(w)) - 1
}

func (t *Term) IsConst() bool { return t.Op == OpConst }
func (t *Term) IsTrue() bool  { return t.Op == OpConst && t.W == 0 && t.Val == 1 }
func (t *Term) IsFalse() bool { return t.Op == OpConst && t.W == 0 && t.Val == 0 }

// signed value of a constant
func (t *Term) SVal() int64 {
	return sext64(t.Val, t.W)
}

func sext64(v uint64, w int) int64 {
	if w >= 64 {
		return int64(v)
	}
	if v&(uint64(1)<<uint(w-1)) != 0 {
		return int64(v | ^mask(w))
	}
	return int64(v)
}

func (c *TermCtx) Const(w int, v uint64) *Term {
	if w == 0 {
		if v != 0 {
			return c.True
		}
		return c.False
	}
	return c.mk(&Term{Op: OpConst, W: w, Val: v & mask(w)})
}

func (c *TermCtx) Bool(b bool) *Term {
	if b {
		return c.True
	}
	return c.False
}

func (c *TermCtx) Var(name string, w int) *Term {
	return c.mk(&Term{Op: OpVar, W: w, Name: name})
}

// ubound returns a cheap unsigned upper bound of t.
func (c *TermCtx) ubound(t *Term) uint64 {
	return c.uboundD(t, 12)
}

func (c *TermCtx) uboundD(t *Term, d int) uint64 {
	r := c.uboundS(t, d)
	if c.ubm != nil {
		if v, ok := c.ubm[t]; ok && v < r {
			r = v
		}
	}
	return r
}

func (c *TermCtx) uboundS(t *Term, d int) uint64 {
	m := mask(t.W)
	if d == 0 {
		return m
	}
	uboundD := c.uboundD
	switch t.Op {
	case OpConst:
		return t.Val
	case OpZExt:
		return uboundD(t.Args[0], d-1)
	case OpAnd:
		a, b := uboundD(t.Args[0], d-1), uboundD(t.Args[1], d-1)
		if a < b {
			return a
		}
		return b
	case OpOr, OpXor:
		a, b := uboundD(t.Args[0], d-1), uboundD(t.Args[1], d-1)
		x := a | b
		if x == 0 {
			return 0
		}
		n := bits.Len64(x)
		return mask(n) & m
	case OpIte:
		a, b := uboundD(t.Args[1], d-1), uboundD(t.Args[2], d-1)
		if a > b {
			return a
		}
		return b
	case OpAdd:
		a, b := uboundD(t.Args[0], d-1), uboundD(t.Args[1], d-1)
		s, carry := bits.Add64(a, b, 0)
		if carry != 0 || s > m {
			return m
		}
		return s
	case OpLShr:
		if t.Args[1].IsConst() {
			a := uboundD(t.Args[0], d-1)
			if t.Args[1].Val >= 64 {
				return 0
			}
			return a >> t.Args[1].Val
		}
		return uboundD(t.Args[0], d-1)
	case OpShl:
		if t.Args[1].IsConst() && t.Args[1].Val < 64 {
			a := uboundD(t.Args[0], d-1)
			sh := t.Args[1].Val
			if a <= (m >> sh) {
				return a << sh
			}
		}
		return m
	case OpURem:
		if t.Args[1].IsConst() && t.Args[1].Val > 0 {
			return t.Args[1].Val - 1
		}
	case OpUDiv:
		if t.Args[1].IsConst() && t.Args[1].Val > 0 {
			return uboundD(t.Args[0], d-1) / t.Args[1].Val
		}
		return uboundD(t.Args[0], d-1)
	case OpSDiv:
		// non-negative dividend and positive constant divisor
		if t.Args[1].IsConst() && t.Args[1].SVal() > 0 {
			a := uboundD(t.Args[0], d-1)
			if a <= mask(t.W-1) {
				return a / t.Args[1].Val
			}
		}
	case OpExtract:
		hi, lo := int(t.Val>>8), int(t.Val&0xff)
		a := uboundD(t.Args[0], d-1)
		if lo == 0 {
			if a <= mask(hi+1) {
				return a
			}
		}
		return m
	case OpMul:
		a, b := uboundD(t.Args[0], d-1), uboundD(t.Args[1], d-1)
		h, l := bits.Mul64(a, b)
		if h == 0 && l <= m {
			return l
		}
	}
	return m
}

// nonneg reports whether t is certainly non-negative as a signed number.
func (c *TermCtx) nonneg(t *Term) bool {
	return c.ubound(t) <= mask(t.W-1)
}

func (c *TermCtx) bin(op Op, a, b *Term) *Term {
	if a.W != b.W {
		panic(fmt.Sprintf("width mismatch in op %d: %d vs %d", op, a.W, b.W))
	}
	w := a.W
	m := mask(w)
	if a.IsConst() && b.IsConst() {
		x, y := a.Val, b.Val
		switch op {
		case OpAdd:
			return c.Const(w, x+y)
		case OpSub:
			return c.Const(w, x-y)
		case OpMul:
			return c.Const(w, x*y)
		case OpUDiv:
			if y == 0 {
				return c.Const(w, m)
			}
			return c.Const(w, x/y)
		case OpURem:
			if y == 0 {
				return a
			}
			return c.Const(w, x%y)
		case OpSDiv:
			sx, sy := a.SVal(), b.SVal()
			if sy == 0 {
				if sx >= 0 {
					return c.Const(w, m)
				}
				return c.Const(w, 1)
			}
			if sy == -1 {
				return c.Const(w, uint64(-sx))
			}
			return c.Const(w, uint64(sx/sy))
		case OpSRem:
			sx, sy := a.SVal(), b.SVal()
			if sy == 0 {
				return a
			}
			if sy == -1 {
				return c.Const(w, 0)
			}
			return c.Const(w, uint64(sx%sy))
		case OpAnd:
			return c.Const(w, x&y)
		case OpOr:
			return c.Const(w, x|y)
		case OpXor:
			return c.Const(w, x^y)
		case OpShl:
			if y >= uint64(w) {
				return c.Const(w, 0)
			}
			return c.Const(w, x<<y)
		case OpLShr:
			if y >= uint64(w) {
				return c.Const(w, 0)
			}
			return c.Const(w, x>>y)
		case OpAShr:
			sx := a.SVal()
			if y >= uint64(w) {
				y = uint64(w - 1)
			}
			return c.Const(w, uint64(sx>>y))
		}
	}
	// identities
	switch op {
	case OpAdd:
		if a.IsConst() && a.Val == 0 {
			return b
		}
		if b.IsConst() && b.Val == 0 {
			return a
		}
		// (x + c1) + c2
		if b.IsConst() && a.Op == OpAdd && a.Args[1].IsConst() {
			return c.bin(OpAdd, a.Args[0], c.Const(w, a.Args[1].Val+b.Val))
		}
		if a.IsConst() { // canonical: constant on the right
			return c.bin(OpAdd, b, a)
		}
	case OpSub:
		if b.IsConst() && b.Val == 0 {
			return a
		}
		if a == b {
			return c.Const(w, 0)
		}
		if b.IsConst() {
			return c.bin(OpAdd, a, c.Const(w, -b.Val))
		}
		// (x + c1) - x
		if a.Op == OpAdd && a.Args[0] == b {
			return a.Args[1]
		}
	case OpMul:
		if a.IsConst() {
			a, b = b, a
		}
		if b.IsConst() {
			if b.Val == 0 {
				return b
			}
			if b.Val == 1 {
				return a
			}
		}
	case OpAnd:
		if a.IsConst() {
			a, b = b, a
		}
		if b.IsConst() {
			if b.Val == 0 {
				return b
			}
			if b.Val == m {
				return a
			}
			if c.ubound(a) <= b.Val && (b.Val&(b.Val+1)) == 0 {
				return a
			}
		}
		if a == b {
			return a
		}
	case OpOr:
		if a.IsConst() {
			a, b = b, a
		}
		if b.IsConst() {
			if b.Val == 0 {
				return a
			}
			if b.Val == m {
				return b
			}
		}
		if a == b {
			return a
		}
	case OpXor:
		if a.IsConst() {
			a, b = b, a
		}
		if b.IsConst() && b.Val == 0 {
			return a
		}
		if a == b {
			return c.Const(w, 0)
		}
	case OpShl, OpLShr, OpAShr:
		if b.IsConst() && b.Val == 0 {
			return a
		}
		if a.IsConst() && a.Val == 0 {
			return a
		}
		if b.IsConst() && b.Val >= uint64(w) && op != OpAShr {
			return c.Const(w, 0)
		}
	case OpUDiv, OpSDiv:
		if b.IsConst() && b.Val == 1 {
			return a
		}
	}
	return c.mk(&Term{Op: op, W: w, Args: []*Term{a, b}})
}

func (c *TermCtx) Add(a, b *Term) *Term  { return c.bin(OpAdd, a, b) }
func (c *TermCtx) Sub(a, b *Term) *Term  { return c.bin(OpSub, a, b) }
func (c *TermCtx) Mul(a, b *Term) *Term  { return c.bin(OpMul, a, b) }
func (c *TermCtx) And(a, b *Term) *Term  { return c.bin(OpAnd, a, b) }
func (c *TermCtx) Or(a, b *Term) *Term   { return c.bin(OpOr, a, b) }
func (c *TermCtx) Xor(a, b *Term) *Term  { return c.bin(OpXor, a, b) }
func (c *TermCtx) Shl(a, b *Term) *Term  { return c.bin(OpShl, a, b) }
func (c *TermCtx) LShr(a, b *Term) *Term { return c.bin(OpLShr, a, b) }
func (c *TermCtx) AShr(a, b *Term) *Term { return c.bin(OpAShr, a, b) }

func (c *TermCtx) Not(a *Term) *Term {
	if a.IsConst() {
		return c.Const(a.W, ^a.Val)
	}
	if a.Op == OpNot {
		return a.Args[0]
	}
	return c.mk(&Term{Op: OpNot, W: a.W, Args: []*Term{a}})
}

func (c *TermCtx) Neg(a *Term) *Term {
	if a.IsConst() {
		return c.Const(a.W, -a.Val)
	}
	return c.mk(&Term{Op: OpNeg, W: a.W, Args: []*Term{a}})
}

func (c *TermCtx) Extract(a *Term, hi, lo int) *Term {
	w := hi - lo + 1
	if lo == 0 && w == a.W {
		return a
	}
	if a.IsConst() {
		return c.Const(w, a.Val>>uint(lo))
	}
	switch a.Op {
	case OpZExt:
		in := a.Args[0]
		if hi < in.W {
			return c.Extract(in, hi, lo)
		}
		if lo >= in.W {
			return c.Const(w, 0)
		}
		if lo == 0 {
			return c.ZExt(in, w)
		}
	case OpSExt:
		in := a.Args[0]
		if hi < in.W {
			return c.Extract(in, hi, lo)
		}
	case OpConcat:
		lw := a.Args[1].W
		if hi < lw {
			return c.Extract(a.Args[1], hi, lo)
		}
		if lo >= lw {
			return c.Extract(a.Args[0], hi-lw, lo-lw)
		}
	case OpExtract:
		ilo := int(a.Val & 0xff)
		return c.Extract(a.Args[0], hi+ilo, lo+ilo)
	case OpIte:
		if a.Args[1].IsConst() || a.Args[2].IsConst() {
			return c.Ite(a.Args[0], c.Extract(a.Args[1], hi, lo), c.Extract(a.Args[2], hi, lo))
		}
	case OpAnd, OpOr, OpXor:
		if lo == 0 && (a.Args[0].IsConst() || a.Args[1].IsConst()) {
			return c.bin(a.Op, c.Extract(a.Args[0], hi, lo), c.Extract(a.Args[1], hi, lo))
		}
	}
	return c.mk(&Term{Op: OpExtract, W: w, Val: uint64(hi)<<8 | uint64(lo), Args: []*Term{a}})
}

func (c *TermCtx) ZExt(a *Term, w int) *Term {
	if w == a.W {
		return a
	}
	if w < a.W {
		return c.Extract(a, w-1, 0)
	}
	if a.IsConst() {
		return c.Const(w, a.Val)
	}
	if a.Op == OpZExt {
		return c.ZExt(a.Args[0], w)
	}
	if a.Op == OpIte && (a.Args[1].IsConst() || a.Args[2].IsConst()) {
		return c.Ite(a.Args[0], c.ZExt(a.Args[1], w), c.ZExt(a.Args[2], w))
	}
	return c.mk(&Term{Op: OpZExt, W: w, Args: []*Term{a}})
}

func (c *TermCtx) SExt(a *Term, w int) *Term {
	if w == a.W {
		return a
	}
	if w < a.W {
		return c.Extract(a, w-1, 0)
	}
	if a.IsConst() {
		return c.Const(w, uint64(a.SVal()))
	}
	if c.nonneg(a) {
		return c.ZExt(a, w)
	}
	if a.Op == OpIte && (a.Args[1].IsConst() || a.Args[2].IsConst()) {
		return c.Ite(a.Args[0], c.SExt(a.Args[1], w), c.SExt(a.Args[2], w))
	}
	return c.mk(&Term{Op: OpSExt, W: w, Args: []*Term{a}})
}

func (c *TermCtx) Concat(hi, lo *Term) *Term {
	w := hi.W + lo.W
	if hi.IsConst() && lo.IsConst() && w <= 64 {
		return c.Const(w, hi.Val<<uint(lo.W)|lo.Val)
	}
	if hi.IsConst() && hi.Val == 0 {
		return c.ZExt(lo, w)
	}
	return c.mk(&Term{Op: OpConcat, W: w, Args: []*Term{hi, lo}})
}

func (c *TermCtx) Ite(cond, a, b *Term) *Term {
	if cond.IsTrue() {
		return a
	}
	if cond.IsFalse() {
		return b
	}
	if a == b {
		return a
	}
	if a.W == 0 {
		if a.IsTrue() && b.IsFalse() {
			return cond
		}
		if a.IsFalse() && b.IsTrue() {
			return c.BNot(cond)
		}
		if a.IsTrue() {
			return c.BOr(cond, b)
		}
		if a.IsFalse() {
			return c.BAnd(c.BNot(cond), b)
		}
		if b.IsTrue() {
			return c.BOr(c.BNot(cond), a)
		}
		if b.IsFalse() {
			return c.BAnd(cond, a)
		}
	}
	if cond.Op == OpBNot {
		return c.Ite(cond.Args[0], b, a)
	}
	// ite(c, x, ite(c, y, z)) = ite(c, x, z)
	if b.Op == OpIte && b.Args[0] == cond {
		return c.Ite(cond, a, b.Args[2])
	}
	if a.Op == OpIte && a.Args[0] == cond {
		return c.Ite(cond, a.Args[1], b)
	}
	return c.mk(&Term{Op: OpIte, W: a.W, Args: []*Term{cond, a, b}})
}

func (c *TermCtx) BNot(a *Term) *Term {
	if a.IsConst() {
		return c.Bool(a.Val == 0)
	}
	switch a.Op {
	case OpBNot:
		return a.Args[0]
	}
	return c.mk(&Term{Op: OpBNot, Args: []*Term{a}})
}

func (c *TermCtx) BAnd(a, b *Term) *Term {
	if a.IsFalse() || b.IsFalse() {
		return c.False
	}
	if a.IsTrue() {
		return b
	}
	if b.IsTrue() {
		return a
	}
	if a == b {
		return a
	}
	if (a.Op == OpBNot && a.Args[0] == b) || (b.Op == OpBNot && b.Args[0] == a) {
		return c.False
	}
	return c.mk(&Term{Op: OpBAnd, Args: []*Term{a, b}})
}

func (c *TermCtx) BOr(a, b *Term) *Term {
	if a.IsTrue() || b.IsTrue() {
		return c.True
	}
	if a.IsFalse() {
		return b
	}
	if b.IsFalse() {
		return a
	}
	if a == b {
		return a
	}
	if (a.Op == OpBNot && a.Args[0] == b) || (b.Op == OpBNot && b.Args[0] == a) {
		return c.True
	}
	return c.mk(&Term{Op: OpBOr, Args: []*Term{a, b}})
}

func (c *TermCtx) Eq(a, b *Term) *Term {
	if a.W != b.W {
		panic(fmt.Sprintf("eq width mismatch %d vs %d", a.W, b.W))
	}
	if a == b {
		return c.True
	}
	if a.IsConst() && b.IsConst() {
		return c.Bool(a.Val == b.Val)
	}
	if a.W == 0 {
		if a.IsConst() {
			a, b = b, a
		}
		if b.IsTrue() {
			return a
		}
		if b.IsFalse() {
			return c.BNot(a)
		}
		return c.mk(&Term{Op: OpEq, Args: order(a, b)})
	}
	if a.IsConst() {
		a, b = b, a
	}
	if b.IsConst() {
		if b.Val > c.ubound(a) || b.Val < c.lbound(a) {
			return c.False
		}
		switch a.Op {
		case OpIte:
			if a.Args[1].IsConst() || a.Args[2].IsConst() {
				return c.Ite(a.Args[0], c.Eq(a.Args[1], b), c.Eq(a.Args[2], b))
			}
		case OpZExt:
			in := a.Args[0]
			if b.Val > mask(in.W) {
				return c.False
			}
			return c.Eq(in, c.Const(in.W, b.Val))
		case OpAdd:
			if a.Args[1].IsConst() {
				return c.Eq(a.Args[0], c.Const(a.W, b.Val-a.Args[1].Val))
			}
		}
	}
	if a.Op == OpZExt && b.Op == OpZExt && a.Args[0].W == b.Args[0].W {
		return c.Eq(a.Args[0], b.Args[0])
	}
	return c.mk(&Term{Op: OpEq, Args: order(a, b)})
}

func order(a, b *Term) []*Term {
	if a.id > b.id {
		return []*Term{b, a}
	}
	return []*Term{a, b}
}

func (c *TermCtx) Ult(a, b *Term) *Term {
	if a.IsConst() && b.IsConst() {
		return c.Bool(a.Val < b.Val)
	}
	if a == b {
		return c.False
	}
	if b.IsConst() {
		if b.Val == 0 {
			return c.False
		}
		if c.ubound(a) < b.Val {
			return c.True
		}
		if c.lbound(a) >= b.Val {
			return c.False
		}
		if a.Op == OpZExt && b.Val <= mask(a.Args[0].W) {
			in := a.Args[0]
			return c.Ult(in, c.Const(in.W, b.Val))
		}
		if a.Op == OpIte && (a.Args[1].IsConst() || a.Args[2].IsConst()) {
			return c.Ite(a.Args[0], c.Ult(a.Args[1], b), c.Ult(a.Args[2], b))
		}
	}
	if a.IsConst() {
		if c.ubound(b) <= a.Val {
			return c.False
		}
		if c.lbound(b) > a.Val {
			return c.True
		}
		if a.Val == 0 {
			return c.BNot(c.Eq(b, a))
		}
		if b.Op == OpZExt {
			in := b.Args[0]
			if a.Val >= mask(in.W) {
				return c.False
			}
			return c.Ult(c.Const(in.W, a.Val), in)
		}
		if b.Op == OpIte && (b.Args[1].IsConst() || b.Args[2].IsConst()) {
			return c.Ite(b.Args[0], c.Ult(a, b.Args[1]), c.Ult(a, b.Args[2]))
		}
	}
	return c.mk(&Term{Op: OpUlt, Args: []*Term{a, b}})
}

func (c *TermCtx) Ule(a, b *Term) *Term { return c.BNot(c.Ult(b, a)) }

func (c *TermCtx) Slt(a, b *Term) *Term {
	if a.IsConst() && b.IsConst() {
		return c.Bool(a.SVal() < b.SVal())
	}
	if a == b {
		return c.False
	}
	if c.nonneg(a) && c.nonneg(b) {
		return c.Ult(a, b)
	}
	if b.IsConst() && a.Op == OpIte && (a.Args[1].IsConst() || a.Args[2].IsConst()) {
		return c.Ite(a.Args[0], c.Slt(a.Args[1], b), c.Slt(a.Args[2], b))
	}
	if a.IsConst() && b.Op == OpIte && (b.Args[1].IsConst() || b.Args[2].IsConst()) {
		return c.Ite(b.Args[0], c.Slt(a, b.Args[1]), c.Slt(a, b.Args[2]))
	}
	// sext(x) < const  (e.g. int(int32 v) comparisons)
	if c.nonneg(a) && b.IsConst() && b.SVal() <= 0 {
		return c.False
	}
	if c.nonneg(b) && a.IsConst() && a.SVal() < 0 {
		return c.True
	}
	return c.mk(&Term{Op: OpSlt, Args: []*Term{a, b}})
}

func (c *TermCtx) Sle(a, b *Term) *Term { return c.BNot(c.Slt(b, a)) }

// FP creates a floating point operation node. name examples:
// "lt32","le32","eq32","add32","sub32","mul32","div32","neg32","isnan32","cvt32to64","cvt64to32",
// "toint32_64" (f32 -> signed 64-bit), "fromint64_32" (signed 64-bit int -> f32), unsigned variants with 'u'.
func (c *TermCtx) FP(name string, w int, args ...*Term) *Term {
	allc := true
	for _, a := range args {
		if !a.IsConst() {
			allc = false
		}
	}
	if allc {
		if r, ok := foldFP(c, name, w, args); ok {
			return r
		}
	}
	return c.mk(&Term{Op: OpFP, W: w, Name: name, Args: args})
}

func f32(t *Term) float32 { return math.Float32frombits(uint32(t.Val)) }
func f64(t *Term) float64 { return math.Float64frombits(t.Val) }

func foldFP(c *TermCtx, name string, w int, a []*Term) (*Term, bool) {
	switch name {
	case "lt32":
		return c.Bool(f32(a[0]) < f32(a[1])), true
	case "le32":
		return c.Bool(f32(a[0]) <= f32(a[1])), true
	case "eq32":
		return c.Bool(f32(a[0]) == f32(a[1])), true
	case "lt64":
		return c.Bool(f64(a[0]) < f64(a[1])), true
	case "le64":
		return c.Bool(f64(a[0]) <= f64(a[1])), true
	case "eq64":
		return c.Bool(f64(a[0]) == f64(a[1])), true
	case "isnan32":
		return c.Bool(f32(a[0]) != f32(a[0])), true
	case "isnan64":
		return c.Bool(f64(a[0]) != f64(a[0])), true
	case "neg32":
		return c.Const(32, uint64(math.Float32bits(-f32(a[0])))), true
	case "neg64":
		return c.Const(64, math.Float64bits(-f64(a[0]))), true
	case "cvt32to64":
		return c.Const(64, math.Float64bits(float64(f32(a[0])))), true
	case "cvt64to32":
		return c.Const(32, uint64(math.Float32bits(float32(f64(a[0]))))), true
	case "add32":
		return c.Const(32, uint64(math.Float32bits(f32(a[0])+f32(a[1])))), true
	case "sub32":
		return c.Const(32, uint64(math.Float32bits(f32(a[0])-f32(a[1])))), true
	case "mul32":
		return c.Const(32, uint64(math.Float32bits(f32(a[0])*f32(a[1])))), true
	case "div32":
		return c.Const(32, uint64(math.Float32bits(f32(a[0])/f32(a[1])))), true
	case "add64":
		return c.Const(64, math.Float64bits(f64(a[0])+f64(a[1]))), true
	case "sub64":
		return c.Const(64, math.Float64bits(f64(a[0])-f64(a[1]))), true
	case "mul64":
		return c.Const(64, math.Float64bits(f64(a[0])*f64(a[1]))), true
	case "div64":
		return c.Const(64, math.Float64bits(f64(a[0])/f64(a[1]))), true
	}
	if strings.HasPrefix(name, "fromint") || strings.HasPrefix(name, "fromuint") {
		// fromint<iw>_<fw>
		uns := strings.HasPrefix(name, "fromuint")
		var iw, fw int
		if uns {
			fmt.Sscanf(name, "fromuint%d_%d", &iw, &fw)
		} else {
			fmt.Sscanf(name, "fromint%d_%d", &iw, &fw)
		}
		var f float64
		if uns {
			f = float64(a[0].Val)
		} else {
			f = float64(a[0].SVal())
		}
		if fw == 32 {
			var f3 float32
			if uns {
				f3 = float32(a[0].Val)
			} else {
				f3 = float32(a[0].SVal())
			}
			return c.Const(32, uint64(math.Float32bits(f3))), true
		}
		return c.Const(64, math.Float64bits(f)), true
	}
	return nil, false
}

// ---------------------------------------------------------------------------------------------
// SMT-LIB printing

type printer struct {
	sb    strings.Builder
	refs  map[*Term]int
	names map[*Term]string
	vars  map[*Term]bool
	n     int
}

func countRefs(t *Term, refs map[*Term]int, vars map[*Term]bool) {
	refs[t]++
	if refs[t] > 1 {
		return
	}
	if t.Op == OpVar {
		vars[t] = true
	}
	for _, a := range t.Args {
		countRefs(a, refs, vars)
	}
}

func bvLit(w int, v uint64) string {
	if w%4 == 0 {
		return fmt.Sprintf("#x%0*x", w/4, v)
	}
	return fmt.Sprintf("(_ bv%d %d)", v, w)
}

func sortOf(w int) string {
	if w == 0 {
		return "Bool"
	}
	return fmt.Sprintf("(_ BitVec %d)", w)
}

// SMT returns the SMT-LIB text of t (with let-bindings for shared nodes) and the variables used.
func SMT(t *Term) (string, []*Term) {
	p := &printer{refs: map[*Term]int{}, names: map[*Term]string{}, vars: map[*Term]bool{}}
	countRefs(t, p.refs, p.vars)
	// collect shared non-leaf nodes in post-order
	var order []*Term
	seen := map[*Term]bool{}
	var walk func(x *Term)
	walk = func(x *Term) {
		if seen[x] {
			return
		}
		seen[x] = true
		for _, a := range x.Args {
			walk(a)
		}
		if p.refs[x] > 1 && len(x.Args) > 0 && x != t {
			order = append(order, x)
		}
	}
	walk(t)
	var sb strings.Builder
	for _, x := range order {
		body := p.expr(x, true)
		p.n++
		name := fmt.Sprintf("?l%d", p.n)
		sb.WriteString("(let ((" + name + " " + body + ")) ")
		p.names[x] = name
	}
	sb.WriteString(p.expr(t, true))
	for range order {
		sb.WriteString(")")
	}
	var vs []*Term
	for v := range p.vars {
		vs = append(vs, v)
	}
	return sb.String(), vs
}

func fpSort(w int) string {
	if w == 32 {
		return "(_ to_fp 8 24)"
	}
	return "(_ to_fp 11 53)"
}

func (p *printer) expr(t *Term, top bool) string {
	if !top {
		if n, ok := p.names[t]; ok {
			return n
		}
	}
	a := func(i int) string { return p.expr(t.Args[i], false) }
	switch t.Op {
	case OpConst:
		if t.W == 0 {
			if t.Val != 0 {
				return "true"
			}
			return "false"
		}
		return bvLit(t.W, t.Val)
	case OpVar:
		return t.Name
	case OpAdd:
		return "(bvadd " + a(0) + " " + a(1) + ")"
	case OpSub:
		return "(bvsub " + a(0) + " " + a(1) + ")"
	case OpMul:
		return "(bvmul " + a(0) + " " + a(1) + ")"
	case OpUDiv:
		return "(bvudiv " + a(0) + " " + a(1) + ")"
	case OpSDiv:
		return "(bvsdiv " + a(0) + " " + a(1) + ")"
	case OpURem:
		return "(bvurem " + a(0) + " " + a(1) + ")"
	case OpSRem:
		return "(bvsrem " + a(0) + " " + a(1) + ")"
	case OpAnd:
		return "(bvand " + a(0) + " " + a(1) + ")"
	case OpOr:
		return "(bvor " + a(0) + " " + a(1) + ")"
	case OpXor:
		return "(bvxor " + a(0) + " " + a(1) + ")"
	case OpNot:
		return "(bvnot " + a(0) + ")"
	case OpNeg:
		return "(bvneg " + a(0) + ")"
	case OpShl:
		return "(bvshl " + a(0) + " " + a(1) + ")"
	case OpLShr:
		return "(bvlshr " + a(0) + " " + a(1) + ")"
	case OpAShr:
		return "(bvashr " + a(0) + " " + a(1) + ")"
	case OpConcat:
		return "(concat " + a(0) + " " + a(1) + ")"
	case OpExtract:
		return fmt.Sprintf("((_ extract %d %d) %s)", t.Val>>8, t.Val&0xff, a(0))
	case OpZExt:
		return fmt.Sprintf("((_ zero_extend %d) %s)", t.W-t.Args[0].W, a(0))
	case OpSExt:
		return fmt.Sprintf("((_ sign_extend %d) %s)", t.W-t.Args[0].W, a(0))
	case OpIte:
		return "(ite " + a(0) + " " + a(1) + " " + a(2) + ")"
	case OpEq:
		return "(= " + a(0) + " " + a(1) + ")"
	case OpUlt:
		return "(bvult " + a(0) + " " + a(1) + ")"
	case OpUle:
		return "(bvule " + a(0) + " " + a(1) + ")"
	case OpSlt:
		return "(bvslt " + a(0) + " " + a(1) + ")"
	case OpSle:
		return "(bvsle " + a(0) + " " + a(1) + ")"
	case OpBNot:
		return "(not " + a(0) + ")"
	case OpBAnd:
		return "(and " + a(0) + " " + a(1) + ")"
	case OpBOr:
		return "(or " + a(0) + " " + a(1) + ")"
	case OpFP:
		return p.fp(t)
	}
	panic("smt: unknown op")
}

func (p *printer) fp(t *Term) string {
	a := func(i int) string { return p.expr(t.Args[i], false) }
	n := t.Name
	fa := func(i int) string { return "(" + fpSort(t.Args[i].W) + " " + a(i) + ")" }
	switch n {
	case "lt32", "lt64":
		return "(fp.lt " + fa(0) + " " + fa(1) + ")"
	case "le32", "le64":
		return "(fp.leq " + fa(0) + " " + fa(1) + ")"
	case "eq32", "eq64":
		return "(fp.eq " + fa(0) + " " + fa(1) + ")"
	case "isnan32", "isnan64":
		return "(fp.isNaN " + fa(0) + ")"
	case "neg32", "neg64":
		return "(fp.to_ieee_bv (fp.neg " + fa(0) + "))"
	case "cvt32to64":
		return "(fp.to_ieee_bv ((_ to_fp 11 53) RNE " + fa(0) + "))"
	case "cvt64to32":
		return "(fp.to_ieee_bv ((_ to_fp 8 24) RNE " + fa(0) + "))"
	case "add32", "add64":
		return "(fp.to_ieee_bv (fp.add RNE " + fa(0) + " " + fa(1) + "))"
	case "sub32", "sub64":
		return "(fp.to_ieee_bv (fp.sub RNE " + fa(0) + " " + fa(1) + "))"
	case "mul32", "mul64":
		return "(fp.to_ieee_bv (fp.mul RNE " + fa(0) + " " + fa(1) + "))"
	case "div32", "div64":
		return "(fp.to_ieee_bv (fp.div RNE " + fa(0) + " " + fa(1) + "))"
	}
	var iw, fw int
	if _, err := fmt.Sscanf(n, "fromint%d_%d", &iw, &fw); err == nil {
		return "(fp.to_ieee_bv (" + fpSort(fw) + " RNE " + a(0) + "))"
	}
	if _, err := fmt.Sscanf(n, "fromuint%d_%d", &iw, &fw); err == nil {
		s := "(_ to_fp_unsigned 8 24)"
		if fw == 64 {
			s = "(_ to_fp_unsigned 11 53)"
		}
		return "(fp.to_ieee_bv (" + s + " RNE " + a(0) + "))"
	}
	if _, err := fmt.Sscanf(n, "toint%d_%d", &fw, &iw); err == nil {
		return fmt.Sprintf("((_ fp.to_sbv %d) RTZ %s)", iw, fa(0))
	}
	if _, err := fmt.Sscanf(n, "touint%d_%d", &fw, &iw); err == nil {
		return fmt.Sprintf("((_ fp.to_ubv %d) RTZ %s)", iw, fa(0))
	}
	panic("smt: unknown fp op " + n)
}

// ---------------------------------------------------------------------------------------------
// Concrete evaluation under a model (var name -> value)

func Eval(t *Term, m map[string]uint64, memo map[*Term]uint64) uint64 {
	if v, ok := memo[t]; ok {
		return v
	}
	var r uint64
	a := func(i int) uint64 { return Eval(t.Args[i], m, memo) }
	sa := func(i int) int64 { return sext64(a(i), t.Args[i].W) }
	b := func(x bool) uint64 {
		if x {
			return 1
		}
		return 0
	}
	w := t.W
	switch t.Op {
	case OpConst:
		r = t.Val
	case OpVar:
		r = m[t.Name] & mask(max(w, 1))
	case OpAdd:
		r = a(0) + a(1)
	case OpSub:
		r = a(0) - a(1)
	case OpMul:
		r = a(0) * a(1)
	case OpUDiv:
		if a(1) == 0 {
			r = mask(w)
		} else {
			r = a(0) / a(1)
		}
	case OpURem:
		if a(1) == 0 {
			r = a(0)
		} else {
			r = a(0) % a(1)
		}
	case OpSDiv:
		x, y := sa(0), sa(1)
		if y == 0 {
			if x >= 0 {
				r = mask(w)
			} else {
				r = 1
			}
		} else if y == -1 {
			r = uint64(-x)
		} else {
			r = uint64(x / y)
		}
	case OpSRem:
		x, y := sa(0), sa(1)
		if y == 0 {
			r = uint64(x)
		} else if y == -1 {
			r = 0
		} else {
			r = uint64(x % y)
		}
	case OpAnd:
		r = a(0) & a(1)
	case OpOr:
		r = a(0) | a(1)
	case OpXor:
		r = a(0) ^ a(1)
	case OpNot:
		r = ^a(0)
	case OpNeg:
		r = -a(0)
	case OpShl:
		if a(1) >= uint64(w) {
			r = 0
		} else {
			r = a(0) << a(1)
		}
	case OpLShr:
		if a(1) >= uint64(w) {
			r = 0
		} else {
			r = a(0) >> a(1)
		}
	case OpAShr:
		s := a(1)
		if s >= uint64(w) {
			s = uint64(w - 1)
		}
		r = uint64(sa(0) >> s)
	case OpConcat:
		r = a(0)<<uint(t.Args[1].W) | a(1)
	case OpExtract:
		r = a(0) >> (t.Val & 0xff)
	case OpZExt:
		r = a(0)
	case OpSExt:
		r = uint64(sa(0))
	case OpIte:
		if a(0) != 0 {
			r = a(1)
		} else {
			r = a(2)
		}
	case OpEq:
		r = b(a(0) == a(1))
	case OpUlt:
		r = b(a(0) < a(1))
	case OpUle:
		r = b(a(0) <= a(1))
	case OpSlt:
		r = b(sa(0) < sa(1))
	case OpSle:
		r = b(sa(0) <= sa(1))
	case OpBNot:
		r = b(a(0) == 0)
	case OpBAnd:
		r = b(a(0) != 0 && a(1) != 0)
	case OpBOr:
		r = b(a(0) != 0 || a(1) != 0)
	case OpFP:
		c := NewTermCtx()
		args := make([]*Term, len(t.Args))
		for i := range t.Args {
			args[i] = c.Const(t.Args[i].W, a(i))
		}
		f, ok := foldFP(c, t.Name, t.W, args)
		if !ok {
			panic("eval: fp op " + t.Name)
		}
		r = f.Val
	}
	if w > 0 {
		r &= mask(w)
	}
	memo[t] = r
	return r
}

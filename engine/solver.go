package main

import (
	"bufio"
	"fmt"
	"io"
	"os/exec"
	"strconv"
	"strings"
	"time"
)

// Solver is one incremental SMT solver process (z3 -in).
type Solver struct {
	cmd   *exec.Cmd
	in    io.WriteCloser
	out   *bufio.Reader
	stack []*Term           // asserted terms, one per push level
	decl  []map[string]int // variables declared per level (index 0 = base level) -> width
	stats *Stats
	bin   string
	tmo   int
	log   io.Writer
	dead  bool
	xs    *XSample
}

type Stats struct {
	Queries   int
	Sat       int
	Unsat     int
	Unknown   int
	SolverNs  int64
	Errors    []string
	Instrs    int64
	Asserts   int
	Paths     int
	MaxDepth  int
	FuncsSeen map[string]bool
}

func NewSolver(bin string, timeoutMs int, st *Stats) (*Solver, error) {
	args := []string{"-in"}
	if strings.Contains(bin, "cvc5") {
		args = []string{"--incremental", "--produce-models", "--lang=smt2"}
	}
	cmd := exec.Command(bin, args...)
	in, err := cmd.StdinPipe()
	if err != nil {
		return nil, err
	}
	out, err := cmd.StdoutPipe()
	if err != nil {
		return nil, err
	}
	cmd.Stderr = cmd.Stdout
	if err := cmd.Start(); err != nil {
		return nil, err
	}
	s := &Solver{cmd: cmd, in: in, out: bufio.NewReaderSize(out, 1<<16), stats: st, bin: bin, tmo: timeoutMs}
	s.decl = []map[string]int{{}}
	if strings.Contains(bin, "cvc5") {
		s.send("(set-logic ALL)")
	} else {
		s.send("(set-option :produce-models true)")
		s.send(fmt.Sprintf("(set-option :timeout %d)", timeoutMs))
	}
	return s, nil
}

func (s *Solver) Close() {
	if s.cmd != nil && !s.dead {
		s.in.Close()
		s.cmd.Process.Kill()
		s.cmd.Wait()
		s.dead = true
	}
}

func (s *Solver) send(cmd string) {
	if s.log != nil {
		fmt.Fprintln(s.log, cmd)
	}
	io.WriteString(s.in, cmd)
	io.WriteString(s.in, "\n")
}

func (s *Solver) readLine() string {
	line, err := s.out.ReadString('\n')
	if err != nil {
		s.stats.Errors = append(s.stats.Errors, "solver io: "+err.Error())
		return "(error \"solver died\")"
	}
	return strings.TrimSpace(line)
}

func (s *Solver) isDeclared(name string) bool {
	for _, m := range s.decl {
		if _, ok := m[name]; ok {
			return true
		}
	}
	return false
}

func (s *Solver) declaredWidth(name string) int {
	for _, m := range s.decl {
		if w, ok := m[name]; ok {
			return w
		}
	}
	return -1
}

func (s *Solver) declareFor(vars []*Term) {
	for _, v := range vars {
		if w := s.declaredWidth(v.Name); w >= 0 && w != v.W {
			s.stats.Errors = append(s.stats.Errors, fmt.Sprintf("variable %s redeclared with width %d (was %d)", v.Name, v.W, w))
		}
		if !s.isDeclared(v.Name) {
			s.send(fmt.Sprintf("(declare-const %s %s)", v.Name, sortOf(v.W)))
			s.decl[len(s.decl)-1][v.Name] = v.W
		}
	}
}

func (s *Solver) push(t *Term) {
	s.send("(push 1)")
	s.decl = append(s.decl, map[string]int{})
	txt, vars := SMT(t)
	s.declareFor(vars)
	s.send("(assert " + txt + ")")
	s.stack = append(s.stack, t)
}

func (s *Solver) pop(n int) {
	if n <= 0 {
		return
	}
	s.send(fmt.Sprintf("(pop %d)", n))
	s.stack = s.stack[:len(s.stack)-n]
	s.decl = s.decl[:len(s.decl)-n]
}

// Sync makes the solver's assertion stack equal to pc.
func (s *Solver) Sync(pc []*Term) {
	k := 0
	for k < len(pc) && k < len(s.stack) && pc[k] == s.stack[k] {
		k++
	}
	s.pop(len(s.stack) - k)
	for ; k < len(pc); k++ {
		s.push(pc[k])
	}
}

type Answer int

const (
	Unsat Answer = iota
	Sat
	Unknown
)

func (a Answer) String() string { return [...]string{"unsat", "sat", "unknown"}[a] }

// Check asks whether pc ∧ extra is satisfiable. If keep is true and the answer is sat the extra
// assertion stays pushed (so that a model can be fetched); the caller must call s.pop(1) afterwards
// or let Sync remove it.
func (s *Solver) Check(pc []*Term, extra *Term) Answer {
	s.Sync(pc)
	if extra != nil {
		s.push(extra)
	}
	t0 := time.Now()
	s.send("(check-sat)")
	line := s.readLine()
	for strings.HasPrefix(line, "(error") || line == "" {
		if strings.HasPrefix(line, "(error") {
			s.stats.Errors = append(s.stats.Errors, line)
			if strings.Contains(line, "solver died") {
				s.stats.Unknown++
				return Unknown
			}
		}
		line = s.readLine()
	}
	s.stats.SolverNs += time.Since(t0).Nanoseconds()
	s.stats.Queries++
	switch line {
	case "sat":
		s.stats.Sat++
		return Sat
	case "unsat":
		s.stats.Unsat++
		if s.xs != nil {
			s.xs.offer(s.dump)
		}
		return Unsat
	}
	s.stats.Unknown++
	return Unknown
}

// Values fetches the values of the given variable/terms in the current sat state.
func (s *Solver) Values(ts []*Term) map[*Term]uint64 {
	res := map[*Term]uint64{}
	const chunk = 256
	for i := 0; i < len(ts); i += chunk {
		j := i + chunk
		if j > len(ts) {
			j = len(ts)
		}
		part := ts[i:j]
		var sb strings.Builder
		sb.WriteString("(get-value (")
		var allv []*Term
		for _, t := range part {
			txt, vars := SMT(t)
			allv = append(allv, vars...)
			sb.WriteString(txt)
			sb.WriteString(" ")
		}
		sb.WriteString("))")
		// undeclared variables are unconstrained: declare them now (at current level)
		s.declareFor(allv)
		s.send(sb.String())
		txt := s.readSexp()
		vals := parseValues(txt)
		if len(vals) != len(part) {
			s.stats.Errors = append(s.stats.Errors, "get-value parse: "+trunc(txt, 200))
			continue
		}
		for k, t := range part {
			res[t] = vals[k]
		}
	}
	return res
}

func trunc(s string, n int) string {
	if len(s) > n {
		return s[:n] + "..."
	}
	return s
}

func (s *Solver) readSexp() string {
	var sb strings.Builder
	depth := 0
	started := false
	for {
		line, err := s.out.ReadString('\n')
		if err != nil {
			return sb.String()
		}
		sb.WriteString(line)
		for _, ch := range line {
			if ch == '(' {
				depth++
				started = true
			} else if ch == ')' {
				depth--
			}
		}
		if started && depth <= 0 {
			return sb.String()
		}
	}
}

// parseValues extracts the value of each (term value) pair in a get-value response, in order.
func parseValues(txt string) []uint64 {
	// tokenise into s-expressions at depth 1
	var vals []uint64
	depth := 0
	start := -1
	for i, ch := range txt {
		if ch == '(' {
			depth++
			if depth == 2 {
				start = i
			}
		} else if ch == ')' {
			if depth == 2 && start >= 0 {
				pair := txt[start : i+1]
				vals = append(vals, lastValue(pair))
				start = -1
			}
			depth--
		}
	}
	return vals
}

// lastValue parses the value at the end of "(term value)".
func lastValue(pair string) uint64 {
	p := strings.TrimSpace(pair)
	p = strings.TrimSuffix(p, ")")
	p = strings.TrimSpace(p)
	// value forms: #x.., #b.., true, false, (_ bvN W)
	if strings.HasSuffix(p, ")") {
		i := strings.LastIndex(p, "(_ bv")
		if i >= 0 {
			f := strings.Fields(p[i+5:])
			v, _ := strconv.ParseUint(f[0], 10, 64)
			return v
		}
		return 0
	}
	i := strings.LastIndexAny(p, " \t\n")
	tok := p[i+1:]
	switch {
	case tok == "true":
		return 1
	case tok == "false":
		return 0
	case strings.HasPrefix(tok, "#x"):
		v, _ := strconv.ParseUint(tok[2:], 16, 64)
		return v
	case strings.HasPrefix(tok, "#b"):
		v, _ := strconv.ParseUint(tok[2:], 2, 64)
		return v
	}
	return 0
}

// Model returns the values of every declared variable in the current sat state.
func (s *Solver) Model(tc *TermCtx) map[string]uint64 {
	var vs []*Term
	for _, m := range s.decl {
		for name, w := range m {
			vs = append(vs, tc.Var(name, w))
		}
	}
	vals := s.Values(vs)
	res := make(map[string]uint64, len(vals))
	for t, v := range vals {
		res[t.Name] = v
	}
	return res
}

package rpc

import (
	"github.com/basecomplextech/baselibrary/status"
	"github.com/basecomplextech/spec/internal/zzverif"
)

// C18, rpc pools: the inductive recycling step. A pooled call state with ARBITRARY field values (any
// combination of flags, a stored failure, a stored result, a method name) is released and the next
// acquire must hand out a state that is indistinguishable from a fresh one in every field the call
// logic reads. One step from an arbitrary state covers histories of any length.

func zzArbStatus() status.Status {
	switch zzverif.Choice(3) {
	case 0:
		return status.None
	case 1:
		return status.OK
	}
	return status.Status{Code: status.Code(zzverif.String(2)), Message: zzverif.String(1)}
}

func ZZ_C18_ServerStateRecycle() {
	s := acquireServerState()
	s.ch = &zzChan{}
	s.method = append(s.method[:0], zzverif.Bytes(zzverif.Choice(3))...)
	s.sendEnd = zzverif.Bool() // (sendReq is never read on the server side and is left alone)
	s.recvEnd, s.recvFailed = zzverif.Bool(), zzverif.Bool()
	s.recvError = zzArbStatus()
	releaseServerState(s)

	n := acquireServerState()
	zzverif.Assert(n.ch == nil, "recycled server state keeps a channel")
	zzverif.Assert(len(n.method) == 0, "recycled server state keeps a method name")
	zzverif.Assert(!n.sendEnd, "recycled server state keeps send flags")
	zzverif.Assert(!n.recvEnd && !n.recvFailed, "recycled server state keeps receive flags")
	zzverif.Assert(n.recvError == status.None, "recycled server state keeps a stored failure")
	zzverif.Assert(n.recvReq.IsEmpty(), "recycled server state keeps a request")
	zzverif.Reach("done")
}

func ZZ_C18_ClientStateRecycle() {
	s := acquireState()
	s.ch = &zzChan{}
	s.logger = &zzLog{}
	s.method = append(s.method[:0], zzverif.Bytes(zzverif.Choice(3))...)
	s.sendReq, s.sendEnd = zzverif.Bool(), zzverif.Bool()
	s.recvEnd, s.recvResp, s.recvFailed = zzverif.Bool(), zzverif.Bool(), zzverif.Bool()
	s.recvError = zzArbStatus()
	if zzverif.Bool() {
		s.result = []byte{zzverif.Byte(), 3}
	}
	s.resultOK = zzverif.Bool()
	s.resultSt = zzArbStatus()
	releaseState(s)

	n := acquireState()
	zzverif.Assert(n.ch == nil && n.logger == nil, "recycled client state keeps channel/logger")
	zzverif.Assert(len(n.method) == 0, "recycled client state keeps a method name")
	zzverif.Assert(!n.sendReq && !n.sendEnd, "recycled client state keeps send flags")
	zzverif.Assert(!n.recvEnd && !n.recvResp && !n.recvFailed, "recycled client state keeps receive flags")
	zzverif.Assert(n.recvError == status.None, "recycled client state keeps a stored failure")
	zzverif.Assert(n.result == nil && !n.resultOK && n.resultSt == status.None, "recycled client state keeps a stored result")
	zzverif.Reach("done")
}

// ZZ_C18_RequestStateRecycle: a request builder state with an arbitrary number of calls begun, built
// or not, done flag arbitrary, goes back to the pool; the next request contains only its own calls.
func ZZ_C18_RequestStateRecycle() {
	r1 := NewRequest()
	for k := zzverif.Choice(3); k > 0; k-- {
		zzverif.Assume(r1.AddEmpty(zzverif.String(1)).OK())
	}
	if zzverif.Bool() {
		_, st := r1.Build()
		zzverif.Assume(st.OK())
	}
	r1.s.done = zzverif.Bool()
	r1.Free()
	if zzverif.Bool() {
		r1.Free() // an explicit Free plus a deferred one: must not put the state into the pool twice
	}

	r2 := NewRequest()
	m := zzverif.String(1)
	zzverif.Assert(!r2.s.done, "recycled request state is marked done")
	zzverif.Assert(r2.AddEmpty(m).OK(), "add")
	req, st := r2.Build()
	zzverif.Assert(st.OK(), "build")
	zzverif.Assert(req.Calls().Len() == 1 && string(req.Calls().Get(0).Method()) == m, "request contains calls of an earlier owner of its state")
	r3 := NewRequest()
	zzverif.Assert(r3.s != r2.s, "two live requests share one pooled state")
	r3.Free()
	r2.Free()
	zzverif.Reach("done")
}

package rpc

import (
	"github.com/basecomplextech/baselibrary/alloc"
	"github.com/basecomplextech/baselibrary/async"
	"github.com/basecomplextech/baselibrary/logging"
	"github.com/basecomplextech/baselibrary/ref"
	"github.com/basecomplextech/baselibrary/status"
	"github.com/basecomplextech/spec"
	"github.com/basecomplextech/spec/internal/zzverif"
	"github.com/basecomplextech/spec/mpx"
	"github.com/basecomplextech/spec/proto/prpc"
)

// C04 (per-call sequential kernel): the caller of an RPC receives the result bytes and the status
// code and message produced by its own invocation; an OK response is observed only if the server
// sent it; a malformed reply or a lost connection surfaces as non-OK; state recycled from a previous
// call never shows through.

// ---- fakes ------------------------------------------------------------------------------------------------

// zzBuf is a contiguous buffer (engine override of alloc.AcquireBuffer / alloc.NewBuffer).
type zzBuf struct{ b []byte }

func ZZ_AcquireBuffer() alloc.Buffer { return &zzBuf{} }
func (z *zzBuf) Len() int            { return len(z.b) }
func (z *zzBuf) Bytes() []byte       { return z.b }
func (z *zzBuf) Grow(n int) []byte {
	zzverif.Assume(n >= 0 && n <= 4096)
	ln := len(z.b)
	if cap(z.b)-ln < n {
		nb := make([]byte, ln, 2*cap(z.b)+n+32)
		copy(nb, z.b)
		z.b = nb
	}
	z.b = z.b[:ln+n]
	p := z.b[ln : ln+n]
	for i := range p {
		p[i] = 0xa5
	}
	return p
}
func (z *zzBuf) Write(p []byte) (int, error)       { return copy(z.Grow(len(p)), p), nil }
func (z *zzBuf) WriteByte(v byte) error            { z.Grow(1)[0] = v; return nil }
func (z *zzBuf) WriteRune(r rune) (int, error)     { zzverif.Unsupported("WriteRune"); return 0, nil }
func (z *zzBuf) WriteString(s string) (int, error) { return copy(z.Grow(len(s)), s), nil }
func (z *zzBuf) Reset()                            { z.b = z.b[:0] }
func (z *zzBuf) Rem() int                          { return cap(z.b) - len(z.b) }
func (z *zzBuf) Free()                             {}

// zzChan is the mpx channel of one call as the rpc layer sees it: a FIFO of incoming frames, then
// the transport's verdict (end after the peer closed, or an error). Freeing the channel recycles
// its memory: every buffer it handed out is overwritten.
type zzChan struct {
	mpx.Channel // nil: unused methods
	in          [][]byte
	handed      [][]byte
	final       status.Status // returned once `in` is drained; OK = nothing more yet
	sent        [][]byte
	closedSend  bool
	freed       int
	wait        chan struct{}
}

func (c *zzChan) Context() mpx.Context { return mpx.ClosedContext() }
func (c *zzChan) ReceiveAsync(ctx async.Context) ([]byte, bool, status.Status) {
	if len(c.in) == 0 {
		return nil, false, c.final
	}
	m := c.in[0]
	c.in = c.in[1:]
	c.handed = append(c.handed, m)
	return m, true, status.OK
}
func (c *zzChan) Receive(ctx async.Context) ([]byte, status.Status) {
	m, ok, st := c.ReceiveAsync(ctx)
	if !st.OK() {
		return nil, st
	}
	if !ok {
		return nil, zzWouldBlock // a sequential run cannot wait for more
	}
	return m, status.OK
}
func (c *zzChan) ReceiveWait() <-chan struct{} { return c.wait }
func (c *zzChan) Send(ctx async.Context, data []byte) status.Status {
	c.sent = append(c.sent, append([]byte{}, data...))
	return status.OK
}
func (c *zzChan) SendAndClose(ctx async.Context, data []byte) status.Status {
	c.sent = append(c.sent, append([]byte{}, data...))
	c.closedSend = true
	return status.OK
}
func (c *zzChan) Free() {
	c.freed++
	for _, b := range c.handed {
		for i := range b {
			b[i] = 0xdd // recycled memory
		}
	}
}

var zzWouldBlock = status.Status{Code: "zz_would_block"}

type zzLogBase = logging.Logger

type zzLog struct {
	zzLogBase
	errors int
}

func (l *zzLog) ErrorStatus(msg string, st status.Status, kv ...any) { l.errors++ }
func (l *zzLog) DebugOn() bool                                        { return false }
func (l *zzLog) Debug(msg string, kv ...any)                          {}

// ---- frames -------------------------------------------------------------------------------------------------

type zzReply struct {
	kind   int // 0 message, 1 end, 2 response, 3 garbage
	data   []byte
	code   string
	msg    string
	result []byte // nil or a valid value
}

func zzFrameOf(r zzReply) []byte {
	b := builder{}
	var m prpc.Message
	var err error
	switch r.kind {
	case 0:
		m, err = b.buildMessage(ZZ_AcquireBuffer(), r.data)
	case 1:
		m, err = b.buildEnd(ZZ_AcquireBuffer())
	case 2:
		m, err = b.buildResponse(ZZ_AcquireBuffer(), r.result, status.Status{Code: status.Code(r.code), Message: r.msg})
	default:
		return append([]byte{}, r.data...)
	}
	zzverif.Assume(err == nil)
	return append([]byte{}, m.Unwrap().Raw()...)
}

func zzDrawCode() string {
	switch zzverif.Choice(4) {
	case 0:
		return "ok"
	case 1:
		return "not_found"
	case 2:
		return "rpc_error"
	}
	return zzverif.String(zzverif.Param("CL")) // application-defined code
}

func zzDrawResult() []byte {
	if zzverif.Bool() {
		return nil
	}
	return []byte{zzverif.Byte(), 3} // a byte value
}

// ZZ_C04_StatusRoundTrip: result bytes, status code and message produced by the handler come back
// byte-identical through buildResponse -> wire -> ParseMessage -> parseResult, also after the
// channel (and its receive buffer) has been freed; OK iff the code is "ok".
func ZZ_C04_StatusRoundTrip() {
	r := zzReply{kind: 2, code: zzDrawCode(), msg: zzverif.String(zzverif.Param("ML")), result: zzDrawResult()}
	wire := zzFrameOf(r)
	c := &zzChan{in: [][]byte{wire}, final: status.End, wait: make(chan struct{})}
	ch := newChannel(c, &zzLog{})
	res, st := ch.Response(async.NoContext())
	var got []byte
	if res != nil {
		got = append([]byte{}, res...)
	}
	ch.Free() // Request() frees the channel before handing the status to the caller
	zzverif.Assert(c.freed == 1, "channel-freed-once")
	zzverif.Assert(string(st.Code) == r.code, "status-code-not-the-handler's")
	if r.code != "ok" {
		// (an OK response is returned as the plain OK status: its message, if a handler ever set one,
		// is not propagated; the statement is read as being about failures here)
		zzverif.Assert(st.Message == r.msg, "status-message-not-the-handler's")
	}
	zzverif.Assert(st.OK() == (r.code == "ok"), "ok-iff-code-ok")
	if r.code == "ok" && r.result != nil {
		zzverif.Assert(string(got) == string(r.result), "result-bytes-not-the-handler's")
	} else {
		zzverif.Assert(len(got) == 0, "result-without-ok-response")
	}
	zzverif.Reach("done")
}

// ZZ_C04_ClientCalls: the server's side of one call is a symbolic sequence of NF frames (message /
// end / response / garbage) followed by the transport's verdict; the client performs NC symbolic
// calls from {ReceiveAsync, Response}. The results are checked against the sequential meaning of the
// served frames. With PRE=1 the call state was first used by another call that failed on the
// transport and was freed (pooled state reuse).
func ZZ_C04_ClientCalls() {
	logger := &zzLog{}
	if zzverif.Param("PRE") == 1 {
		pc := &zzChan{final: status.Status{Code: status.CodeUnavailable}, wait: make(chan struct{})}
		prev := newChannel(pc, logger)
		_, st := prev.Response(async.NoContext())
		zzverif.Assume(!st.OK())
		prev.Free()
	}
	nf := zzverif.Param("NF")
	var served []zzReply
	var wire [][]byte
	respServed := false
	for i := 0; i < nf; i++ {
		// (the server's contract: the response is the last frame of a call)
		zzverif.Assume(!respServed)
		r := zzReply{kind: zzverif.Choice(4)}
		respServed = r.kind == 2
		switch r.kind {
		case 0:
			r.data = zzverif.Bytes(1)
		case 2:
			r.code, r.result = zzDrawCode(), zzDrawResult()
		case 3:
			r.data = zzverif.Bytes(2)
		}
		served = append(served, r)
		wire = append(wire, zzFrameOf(r))
	}
	final := status.End
	if zzverif.Bool() {
		final = status.Status{Code: status.CodeUnavailable} // connection lost
	}
	c := &zzChan{in: wire, final: final, wait: make(chan struct{})}
	ch := newChannel(c, logger)

	// sequential meaning of the served frames
	pos := 0         // next served frame
	ended := false   // end marker or response passed
	var failed bool  // a call already failed
	var failCode status.Code
	var respSeen, respTaken bool
	var resp zzReply

	nc := zzverif.Param("NC")
	for call := 0; call < nc; call++ {
		if zzverif.Bool() {
			// ---- ReceiveAsync
			data, ok, st := ch.ReceiveAsync(async.NoContext())
			switch {
			case failed:
				zzverif.Assert(!st.OK() && st.Code == failCode, "receive after a failure must repeat it")
			case ended:
				// after the end marker / response nothing more is streamed: end, or the transport's verdict
				zzverif.Assert(!ok && !st.OK(), "message or OK after the end of the stream")
				if st.Code != status.CodeEnd {
					failed, failCode = true, st.Code
				}
			case pos == len(served):
				if final.OK() {
					zzverif.Assert(!ok && st.OK(), "nothing-served-yet")
				} else {
					zzverif.Assert(!ok && !st.OK(), "transport verdict lost")
					if st.Code != status.CodeEnd || final.Code != status.CodeEnd {
						failed, failCode = true, st.Code
					} else {
						failed, failCode = true, st.Code
					}
				}
			default:
				r := served[pos]
				pos++
				switch r.kind {
				case 0:
					zzverif.Assert(ok && st.OK() && string(data) == string(r.data), "streamed message differs or out of order")
					zzverif.Reach("streamed")
				case 1:
					zzverif.Assert(!ok && st.Code == status.CodeEnd, "end marker not reported")
					ended = true
				case 2:
					zzverif.Assert(!ok && st.Code == status.CodeEnd, "response must end the stream")
					ended, respSeen, resp = true, true, r
				case 3:
					zzverif.Assert(!ok && !st.OK(), "garbage frame accepted")
					failed, failCode = true, st.Code
				}
			}
		} else {
			// ---- Response
			res, st := ch.Response(async.NoContext())
			if failed {
				zzverif.Assert(!st.OK() && st.Code == failCode, "response after a failure must repeat it")
				continue
			}
			if respSeen {
				if respTaken {
					zzverif.Assert(!st.OK(), "response handed out twice")
				} else {
					respTaken = true
					zzverif.Assert(string(st.Code) == resp.code, "response status is not the served one")
					if resp.code == "ok" && resp.result != nil {
						zzverif.Assert(string(res) == string(resp.result), "response result is not the served one")
					}
					zzverif.Reach("response")
				}
				continue
			}
			// skip forward to the response
			found := false
			for pos < len(served) && !found {
				r := served[pos]
				pos++
				switch r.kind {
				case 1:
					ended = true
				case 2:
					found, ended, respSeen, respTaken, resp = true, true, true, true, r
				case 3:
					zzverif.Assert(!st.OK(), "garbage frame accepted")
					failed, failCode = true, st.Code
					pos = len(served) + 1
				}
			}
			switch {
			case failed:
			case found:
				zzverif.Assert(string(st.Code) == resp.code, "response status is not the served one")
				zzverif.Assert(st.OK() == (resp.code == "ok"), "ok without an ok response")
				if resp.code == "ok" && resp.result != nil {
					zzverif.Assert(string(res) == string(resp.result), "response result is not the served one")
				}
				zzverif.Reach("response")
			default:
				// no response frame was served: never OK
				zzverif.Assert(!st.OK(), "ok response although the server never sent one")
				failed, failCode = true, st.Code
				zzverif.Reach("no-response")
			}
		}
	}
	ch.Free()
	zzverif.Assert(c.freed == 1, "channel freed exactly once")
	zzverif.Reach("done")
}

// ---- server side ----------------------------------------------------------------------------------------------

func (l *zzLog) TraceOn() bool               { return false }
func (l *zzLog) ErrorOn() bool               { return true }
func (l *zzLog) Trace(msg string, kv ...any) {}

// zzRef is a reference-counted result as handlers return it.
type zzRef struct {
	b        []byte
	released int
}

func (r *zzRef) Refcount() int64 { return 1 }
func (r *zzRef) Retain()         {}
func (r *zzRef) Release()        { r.released++ }
func (r *zzRef) Unwrap() []byte  { return r.b }

type zzRPCHandler struct {
	calls  int
	mode   int // 0 ok+result, 1 application status, 2 skip response, 3 panic
	result *zzRef
	code   string
	method string
}

func (h *zzRPCHandler) Handle(ctx Context, ch ServerChannel) (ref.R[[]byte], status.Status) {
	h.calls++
	h.method = ch.(*serverChannel).Method()
	switch h.mode {
	case 0:
		return h.result, status.OK
	case 1:
		return nil, status.Status{Code: status.Code(h.code), Message: "m"}
	case 2:
		return nil, SkipResponse
	}
	panic("handler panic")
}

// ZZ_C04_ServerCall: the first frame of a call is arbitrary (request with a symbolic method,
// another frame type, or garbage). The handler runs exactly once iff it is a well-formed request;
// the caller gets exactly one closing frame carrying the handler's result and status (none for a
// oneway / skip-response call); a handler panic becomes a non-OK status; the result reference is
// released exactly once.
func ZZ_C04_ServerCall() {
	kind := zzverif.Choice(4) // 0 request, 1 message, 2 end, 3 garbage
	var first []byte
	method := zzverif.String(zzverif.Param("ML"))
	switch kind {
	case 0:
		w := prpc.NewRequestWriter()
		cl := w.Calls()
		c := cl.Add()
		c.Method(method)
		zzverif.Assume(c.End() == nil && cl.End() == nil)
		req, err := w.Build()
		zzverif.Assume(err == nil)
		m, err := builder{}.buildRequest(ZZ_AcquireBuffer(), req)
		zzverif.Assume(err == nil)
		first = append([]byte{}, m.Unwrap().Raw()...)
	case 1:
		first = zzFrameOf(zzReply{kind: 0, data: zzverif.Bytes(1)})
	case 2:
		first = zzFrameOf(zzReply{kind: 1})
	default:
		first = zzverif.Bytes(2)
	}
	h := &zzRPCHandler{mode: zzverif.Choice(4), code: zzDrawCode(), result: &zzRef{b: []byte{zzverif.Byte(), 3}}}
	zzverif.Assume(h.mode != 1 || h.code != "ok")
	c := &zzChan{in: [][]byte{first}, final: status.End, wait: make(chan struct{})}
	srv := &server{handler: h, logger: &zzLog{}}
	st := srv.HandleChannel(mpx.ClosedContext(), c)

	if kind != 0 {
		zzverif.Assert(h.calls == 0, "handler ran without a well-formed request")
		zzverif.Assert(!st.OK(), "malformed first frame reported as success")
		zzverif.Assert(len(c.sent) == 0, "response sent without a request")
		zzverif.Reach("rejected")
		return
	}
	zzverif.Assert(h.calls == 1, "handler must run exactly once per request")
	zzverif.Assert(h.method == method, "handler saw another method")
	if h.mode == 2 {
		zzverif.Assert(len(c.sent) == 0 && st.OK(), "oneway request must not get a response")
		zzverif.Reach("oneway")
		return
	}
	zzverif.Assert(len(c.sent) == 1 && c.closedSend, "exactly one closing response frame")
	m, _, err := prpc.ParseMessage(c.sent[0])
	zzverif.Assert(err == nil && m.Type() == prpc.MessageType_Response, "closing frame is a response")
	res, rst := parseResult(m.Resp())
	switch h.mode {
	case 0:
		zzverif.Assert(rst.OK() && string(res) == string(h.result.b), "caller must get the handler's result")
		zzverif.Assert(h.result.released == 1, "result reference released exactly once")
	case 1:
		zzverif.Assert(string(rst.Code) == h.code && rst.Message == "m" && len(res) == 0, "caller must get the handler's status")
	case 3:
		zzverif.Assert(!rst.OK(), "handler panic must surface as a non-OK status")
		zzverif.Reach("panic")
	}
	zzverif.Reach("responded")
}

// ZZ_Recover overrides status.Recover inside the engine (the real one formats the panic value and a
// stack trace through fmt/runtime: an opaque string of unknown length).
func ZZ_Recover(e any) status.Status {
	return status.Status{Code: status.CodeError, Message: "panic"}
}

// ---- server side: consecutive calls through the pooled server state ------------------------------------------

type zzStreamPlan struct {
	msgs [][]byte
	end  bool
	res  *zzRef
}

type zzStreamHandler struct {
	plans  []zzStreamPlan
	calls  int
	sendOK bool
}

func (h *zzStreamHandler) Handle(ctx Context, ch ServerChannel) (ref.R[[]byte], status.Status) {
	p := h.plans[h.calls]
	h.calls++
	for _, m := range p.msgs {
		if !ch.Send(ctx, m).OK() {
			h.sendOK = false
		}
	}
	if p.end {
		if !ch.SendEnd(ctx).OK() {
			h.sendOK = false
		}
	}
	return p.res, status.OK
}

// ZZ_C04_ServerStream: NC consecutive streaming calls served by one server (so the pooled server
// channel state is reused): every call's handler streams up to 2 messages, optionally ends the
// stream explicitly, and returns a result. Each caller sees exactly its own call's messages in
// order, at most one end marker after them, then the response with that call's result; the
// handler's sends succeed whatever an earlier call did.
func ZZ_C04_ServerStream() {
	nc := zzverif.Param("NC")
	h := &zzStreamHandler{sendOK: true}
	for i := 0; i < nc; i++ {
		p := zzStreamPlan{end: zzverif.Bool(), res: &zzRef{b: []byte{zzverif.Byte(), 3}}}
		for k := zzverif.Choice(3); k > 0; k-- {
			p.msgs = append(p.msgs, zzverif.Bytes(1))
		}
		h.plans = append(h.plans, p)
	}
	srv := &server{handler: h, logger: &zzLog{}}
	for i := 0; i < nc; i++ {
		w := prpc.NewRequestWriter()
		cl := w.Calls()
		c := cl.Add()
		c.Method("m")
		zzverif.Assume(c.End() == nil && cl.End() == nil)
		req, err := w.Build()
		zzverif.Assume(err == nil)
		m, err := builder{}.buildRequest(ZZ_AcquireBuffer(), req)
		zzverif.Assume(err == nil)
		ch := &zzChan{in: [][]byte{append([]byte{}, m.Unwrap().Raw()...)}, final: status.End, wait: make(chan struct{})}
		st := srv.HandleChannel(mpx.ClosedContext(), ch)
		zzverif.Assert(st.OK(), "call failed on the server")
		zzverif.Assert(h.calls == i+1, "handler must run exactly once per request")
		zzverif.Assert(h.sendOK, "a handler's Send/SendEnd failed although its own call had sent no end")
		p := h.plans[i]
		k := 0
		for _, want := range p.msgs {
			zzverif.Assert(k < len(ch.sent), "streamed message missing")
			f, _, err := prpc.ParseMessage(ch.sent[k])
			zzverif.Assert(err == nil && f.Type() == prpc.MessageType_Message && string(f.Msg()) == string(want), "streamed message is not this call's, in order")
			k++
		}
		if p.end {
			zzverif.Assert(k < len(ch.sent), "end marker missing")
			f, _, err := prpc.ParseMessage(ch.sent[k])
			zzverif.Assert(err == nil && f.Type() == prpc.MessageType_End, "end marker expected after the messages")
			k++
		}
		zzverif.Assert(k == len(ch.sent)-1 && ch.closedSend, "exactly one closing response frame after the stream")
		f, _, err := prpc.ParseMessage(ch.sent[k])
		zzverif.Assert(err == nil && f.Type() == prpc.MessageType_Response, "closing frame is a response")
		res, rst := parseResult(f.Resp())
		zzverif.Assert(rst.OK() && string(res) == string(p.res.b), "caller must get this call's result")
		zzverif.Assert(p.res.released == 1, "result reference released exactly once")
	}
	zzverif.Reach("done")
}

// ZZ_C04_RequestBuilder: request builders go through a state pool. A request is begun with A calls
// and then built or abandoned, freed, and the next request (B calls) is built: the built request
// contains exactly the calls added to it, in order, and nothing of the earlier one.
func ZZ_C04_RequestBuilder() {
	add := func(r *Request, n int) []string {
		var ms []string
		for i := 0; i < n; i++ {
			m := zzverif.String(1)
			ms = append(ms, m)
			zzverif.Assert(r.AddEmpty(m).OK(), "add call")
		}
		return ms
	}
	check := func(req prpc.Request, want []string, what string) {
		calls := req.Calls()
		zzverif.Assert(calls.Len() == len(want), what+": number of calls differs from the calls added")
		for i := range want {
			zzverif.Assert(i < calls.Len() && string(calls.Get(i).Method()) == want[i], what+": call is not the one added")
		}
	}
	r1 := NewRequest()
	m1 := add(r1, zzverif.Choice(3))
	if zzverif.Bool() {
		req, st := r1.Build()
		zzverif.Assert(st.OK(), "build")
		check(req, m1, "first request")
		zzverif.Reach("built-first")
	} else {
		zzverif.Reach("abandoned-first")
	}
	r1.Free()
	r2 := NewRequest()
	m2 := add(r2, 1+zzverif.Choice(2))
	req, st := r2.Build()
	zzverif.Assert(st.OK(), "build")
	check(req, m2, "second request")
	r2.Free()
	zzverif.Reach("done")
}

// ---- client -> server streaming --------------------------------------------------------------------------

type zzRecvHandler struct {
	calls  int
	got    [][]byte
	end    bool
	extra  bool
	method string
	res    *zzRef
}

func (h *zzRecvHandler) Handle(ctx Context, ch ServerChannel) (ref.R[[]byte], status.Status) {
	h.calls++
	h.method = ch.(*serverChannel).Method()
	for i := 0; i < 8; i++ {
		m, st := ch.Receive(ctx)
		if st.Code == status.CodeEnd {
			h.end = true
			break
		}
		if !st.OK() {
			return nil, st
		}
		h.got = append(h.got, append([]byte{}, m...))
	}
	// nothing comes after the end
	if _, ok, st := ch.ReceiveAsync(ctx); ok || st.OK() {
		h.extra = true
	}
	return h.res, status.OK
}

// ZZ_C04_ClientStream: the request direction. The real client channel sends a request with a
// symbolic method, NM symbolic messages and the end marker; the frames it put on the wire are served
// to the real server, whose handler reads the stream: the handler runs once, sees that method,
// receives exactly those messages in order, then the end, and nothing after it; the client refuses a
// second request and any message after its end marker.
func ZZ_C04_ClientStream() {
	nm := zzverif.Param("NM")
	method := zzverif.String(1)
	wire := &zzChan{final: status.OK, wait: make(chan struct{})}
	c := newChannel(wire, &zzLog{})
	w := prpc.NewRequestWriter()
	cl := w.Calls()
	call := cl.Add()
	call.Method(method)
	zzverif.Assume(call.End() == nil && cl.End() == nil)
	req, err := w.Build()
	zzverif.Assume(err == nil)
	ctx := mpx.ClosedContext()
	zzverif.Assert(c.Request(ctx, req).OK(), "request sent")
	zzverif.Assert(!c.Request(ctx, req).OK(), "second request on one call accepted")
	var msgs [][]byte
	for i := 0; i < nm; i++ {
		m := zzverif.Bytes(1)
		msgs = append(msgs, m)
		zzverif.Assert(c.Send(ctx, m).OK(), "message sent")
	}
	zzverif.Assert(c.SendEnd(ctx).OK(), "end sent")
	zzverif.Assert(!c.Send(ctx, []byte{1}).OK(), "message after the end marker accepted")
	zzverif.Assert(len(wire.sent) == nm+2, "frames on the wire: request, messages, end")

	h := &zzRecvHandler{res: &zzRef{b: []byte{zzverif.Byte(), 3}}}
	srv := &server{handler: h, logger: &zzLog{}}
	sch := &zzChan{in: wire.sent, final: status.End, wait: make(chan struct{})}
	st := srv.HandleChannel(ctx, sch)
	zzverif.Assert(st.OK(), "server call")
	zzverif.Assert(h.calls == 1 && h.method == method, "handler ran once with the request's method")
	zzverif.Assert(h.end && !h.extra, "stream ends with the end marker and nothing follows")
	zzverif.Assert(len(h.got) == nm, "number of streamed messages")
	for i := range msgs {
		zzverif.Assert(string(h.got[i]) == string(msgs[i]), "streamed message differs or out of order")
	}
	zzverif.Assert(len(sch.sent) == 1 && sch.closedSend, "one closing response")
	zzverif.Reach("done")
}

// ZZ_C04_StatusCode: the status code a caller sees is the code the handler produced, for EVERY code
// string of length L (all built-in codes and every application-defined one): the mapping that interns
// the well-known codes is the identity on strings.
func ZZ_C04_StatusCode() {
	code := zzverif.String(zzverif.Param("L"))
	got := parseStatusCode(spec.String(code))
	zzverif.Assert(string(got) == code, "status code changed on the way to the caller")
	zzverif.Reach("done")
}

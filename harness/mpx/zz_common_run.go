package mpx

import (
	"encoding/binary"

	"github.com/basecomplextech/baselibrary/async"
	"github.com/basecomplextech/baselibrary/bin"
	"github.com/basecomplextech/baselibrary/status"
	"github.com/basecomplextech/spec/internal/zzverif"
	"github.com/basecomplextech/spec/proto/pmpx"
)

// The connection's run(): handshake, start the receive and the send loop, wait for the first of them
// to exit, tear down, join both. Inside the engine async.RunVoid is overridden by ZZ_RunVoid: the loop
// chosen by zzRunFirst runs to completion at once (it is the one that fails first), the other one
// has made no progress yet and runs when it is stopped and joined, with a cancelled routine context.
// That is one legal schedule of the two goroutines; natively the real async.RunVoid starts real
// goroutines and the fakes make that schedule the only possible one (the surviving loop is stuck in a
// socket read, or idle on an empty write queue).

var zzRunFirst, zzRunCount int

// zzFrame prefixes a message body with its 4-byte big-endian length.
func zzFrame(body []byte) []byte {
	out := make([]byte, 4, 4+len(body))
	binary.BigEndian.PutUint32(out, uint32(len(body)))
	return append(out, body...)
}

type zzLazy struct {
	fn   async.FuncVoid
	ran  bool
	st   status.Status
	done chan struct{}
	ctx  *zzCtx
}

func ZZ_RunVoid(fn async.FuncVoid) async.RoutineVoid {
	r := &zzLazy{fn: fn, done: make(chan struct{}), ctx: zzNewCtx()}
	idx := zzRunCount
	zzRunCount++
	if idx == zzRunFirst {
		r.run()
	}
	return r
}

func (r *zzLazy) run() {
	if r.ran {
		return
	}
	r.ran = true
	defer close(r.done)
	defer func() {
		if e := recover(); e != nil {
			r.st = status.Status{Code: status.CodeError} // the real routine recovers panics into a status
		}
	}()
	r.st = r.fn(r.ctx)
}

func (r *zzLazy) Done() bool                                  { return r.ran }
func (r *zzLazy) Wait() <-chan struct{}                       { return r.done }
func (r *zzLazy) Result() (struct{}, status.Status)           { return struct{}{}, r.st }
func (r *zzLazy) Status() status.Status                       { return r.st }
func (r *zzLazy) Start()                                      {}
func (r *zzLazy) OnStop(fn func(async.Routine[struct{}])) bool { return false }
func (r *zzLazy) Stop() <-chan struct{} {
	r.ctx.Cancel()
	r.run()
	return r.done
}

// ZZ_RunTeardown: a negotiated server connection loses its transport in one direction only:
//   FIRST=1: a socket write fails while the peer stays silent (the receive loop is stuck in Read);
//   FIRST=0: the peer's stream ends while nothing is being sent (the send loop is idle).
// run() returns (no loop is left behind, nothing waits forever), the socket is closed exactly once,
// the closed flag is set, the connection context is cancelled, the delegate is notified once, and
// a listener registered before the loss runs exactly once.
func ZZ_RunTeardown() {
	first := zzverif.Param("FIRST")
	zzRunFirst, zzRunCount = first, 0
	// the peer's half of the handshake
	w := pmpx.NewMessageWriter()
	w.Code(pmpx.Code_ConnectRequest)
	w1 := w.ConnectRequest()
	w2 := w1.Versions()
	w2.Add(pmpx.Version_Version10)
	zzverif.Assume(w2.End() == nil)
	zzverif.Assume(w1.End() == nil)
	req, err := w.Build()
	zzverif.Assume(err == nil)
	stream := append([]byte(ProtocolLine), zzFrame(req.Unwrap().Raw())...)
	e := zzNewConn(false, stream, true)
	e.nc.in.whole = true
	if first == 1 {
		e.nc.in.block = make(chan struct{}) // silent peer: Read blocks until the socket is closed
		e.nc.out.failWhen = func() bool { return e.shaken.set }
		data, err := pmpx.BuildChannelData(pmpx.NewMessageWriterBuffer(ZZ_AcquireBuffer()), bin.Bin128{{7}, {7}}, zzverif.Bytes(1))
		zzverif.Assume(err == nil)
		ok, st := e.writeq.Write(data.Unwrap().Raw())
		zzverif.Assume(ok && st.OK())
	}
	called := 0
	_, ok := e.c.OnClosed(func() { called++ })
	zzverif.Assert(ok, "listener-registered-on-open-connection")

	st := e.c.run()
	zzverif.Assert(!st.OK() || first == 0, "run-ok-after-write-failure")
	zzverif.Assert(e.closed.set, "closed-flag-not-set-after-run")
	zzverif.Assert(e.c.ctx.Done(), "connection-context-not-cancelled")
	zzverif.Assert(e.nc.closes == 1, "socket-not-closed-exactly-once")
	zzverif.Assert(e.delegate.closed == 1, "delegate-not-notified-once")
	zzverif.Assert(called == 1, "listener-not-called-exactly-once")
	zzverif.Reach("done")
}

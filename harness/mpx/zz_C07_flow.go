package mpx

import (
	"github.com/basecomplextech/baselibrary/bin"
	"github.com/basecomplextech/baselibrary/status"
	"github.com/basecomplextech/spec/internal/zzverif"
	"github.com/basecomplextech/spec/proto/pmpx"
)

// C07: flow control. The kernels run the real window code (decrementSendWindow, ReceiveAsync's
// accounting, receiveWindow, the window frame builder/reader) from arbitrary states: window size,
// counters and message sizes are symbolic over the full int32 range up to 2^30.

// ZZ_C07_Admission: one call of decrementSendWindow from an arbitrary sender state.
//   returns OK        => the free window was at least min(size, W/2) and is debited by exactly size
//   would have blocked => the window is unchanged and the wake-up token is consumed
// ("admits only while": which admissible states may still block is not fixed by the property; that
// the admission and acknowledgement rules together never deadlock is ZZ_C07_NoDeadlockPair)
// With a pending wake-up token (param TOKEN=1) the call consumes it and re-evaluates.
func ZZ_C07_Admission() {
	w := zzverif.Int32()
	zzverif.Assume(w >= 1 && w <= zzMaxW)
	sw := zzverif.Int32()
	zzverif.Assume(sw >= -zzMaxW && sw <= zzMaxW)
	size := zzverif.Int()
	zzverif.Assume(size >= 0 && size <= zzMaxW)
	s, _, _ := zzC07state(w)
	s.sendWindow.Store(sw)
	if zzverif.Param("TOKEN") == 1 {
		s.sendWindowWait <- struct{}{}
	}
	probe := zzNewProbe(func() bool { return len(s.sendWindowWait) == 0 })
	st := s.decrementSendWindow(probe, zzverif.Virtual(size))
	after := s.sendWindow.Load()
	admissible := int64(sw) >= int64(size) || sw >= w/2
	switch {
	case st.OK():
		zzverif.Assert(admissible, "admitted-without-window")
		zzverif.Assert(int64(after) == int64(sw)-int64(size), "debit-equals-size")
		// outstanding bytes stay within max(W, W - W/2 + size), given outstanding = W - window
		out := int64(w) - int64(after)
		bound := int64(w)
		if b2 := int64(w) - int64(w/2) + int64(size); b2 > bound {
			bound = b2
		}
		if sw <= w {
			zzverif.Assert(out <= bound, "outstanding-bound")
		}
		zzverif.Reach("admitted")
	case st.Code == zzWouldBlock.Code:
		zzverif.Assert(after == sw, "blocked-call-changed-window")
		zzverif.Assert(len(s.sendWindowWait) == 0, "token-not-consumed")
		zzverif.Reach("blocked")
	default:
		zzverif.Assert(false, "unexpected-status")
	}
}

// zzWakeProbeCtx: a probing context (see zzNewProbe) that, the first time the code under test is about
// to block in its select, lets one other complete operation run: a nested preemption at the blocking point.
type zzWakeProbeCtx struct {
	*zzProbeCtx
	hook func()
}

func (c *zzWakeProbeCtx) Wait() <-chan struct{} {
	if h := c.hook; h != nil {
		c.hook = nil
		h()
	}
	return c.zzProbeCtx.Wait()
}

// ZZ_C07_WokenRechecks: a sender that is about to block on the window is woken by a window update of
// an arbitrary size (a real frame through receiveMessage): the wake-up alone admits nothing. If the
// call then returns OK the window *after the credit* was at least min(size, W/2) and is debited by
// exactly size; if it would block again the window holds exactly the credit. Added after seed
// C07-r4m1 (check once, wait once, debit: a partial credit behind an oversize message admits the next
// message at a deeply negative window).
func ZZ_C07_WokenRechecks() {
	w := zzverif.Int32()
	zzverif.Assume(w >= 2 && w <= zzMaxW)
	size := zzverif.Int()
	zzverif.Assume(size >= 1 && size <= zzMaxW)
	sw := zzverif.Int32()
	zzverif.Assume(sw >= -zzMaxW && int64(sw) < int64(size) && sw < w/2)
	delta := zzverif.Int32()
	zzverif.Assume(delta >= 1 && delta <= zzMaxW && int64(sw)+int64(delta) <= zzMaxW)
	s, _, _ := zzC07state(w)
	s.sendWindow.Store(sw)
	woken := false
	ctx := &zzWakeProbeCtx{zzProbeCtx: zzNewProbe(func() bool { return len(s.sendWindowWait) == 0 })}
	ctx.hook = func() {
		msg, err := pmpx.BuildChannelWindow(pmpx.NewMessageWriterBuffer(ZZ_AcquireBuffer()), s.id, delta)
		zzverif.Assert(err == nil, "build-window-frame")
		m2, _, err := pmpx.ParseMessage(msg.Unwrap().Raw())
		zzverif.Assert(err == nil, "parse-window-frame")
		zzverif.Assert(s.receiveMessage(m2).OK(), "receive-window-ok")
		woken = true
	}
	st := s.decrementSendWindow(ctx, zzverif.Virtual(size))
	zzverif.Assert(woken, "blocked-sender-never-waited")
	sw2 := int64(sw) + int64(delta)
	after := int64(s.sendWindow.Load())
	switch {
	case st.OK():
		zzverif.Assert(sw2 >= int64(size) || sw2 >= int64(w/2), "woken-sender-admitted-without-window")
		zzverif.Assert(after == sw2-int64(size), "debit-equals-size")
		zzverif.Reach("admitted")
	case st.Code == zzWouldBlock.Code:
		zzverif.Assert(after == sw2, "blocked-call-changed-window")
		zzverif.Reach("blocked-again")
	default:
		zzverif.Assert(false, "unexpected-status")
	}
}

// ZZ_C07_ClosedWhileBlocked: a sender blocked on the window returns the channel-closed status when
// the channel context is cancelled (never OK, never a silent hang).
func ZZ_C07_ClosedWhileBlocked() {
	w := zzverif.Int32()
	zzverif.Assume(w >= 2 && w <= zzMaxW)
	size := zzverif.Int()
	zzverif.Assume(size >= 1 && size <= zzMaxW)
	sw := zzverif.Int32()
	zzverif.Assume(sw >= -zzMaxW && int64(sw) < int64(size) && sw < w/2)
	s, _, _ := zzC07state(w)
	s.sendWindow.Store(sw)
	s.ctx.Cancel()
	st := s.decrementSendWindow(zzNewCtx(), zzverif.Virtual(size))
	zzverif.Assert(!st.OK() && st.Code == statusChannelClosed.Code, "blocked-sender-sees-channel-closed")
	zzverif.Assert(s.sendWindow.Load() == sw, "window-unchanged")
	zzverif.Reach("done")
}

// ZZ_C07_WindowUpdate: receiveWindow with an arbitrary delta built by the real frame builder credits
// exactly delta and leaves a wake-up token.
func ZZ_C07_WindowUpdate() {
	w := zzverif.Int32()
	zzverif.Assume(w >= 1 && w <= zzMaxW)
	sw := zzverif.Int32()
	zzverif.Assume(sw >= -zzMaxW && sw <= zzMaxW)
	delta := zzverif.Int32()
	zzverif.Assume(delta >= 0 && delta <= zzMaxW)
	zzverif.Assume(int64(sw)+int64(delta) <= zzMaxW) // a credit never lifts the window above W <= 2^30
	s, _, _ := zzC07state(w)
	s.sendWindow.Store(sw)
	if zzverif.Bool() {
		s.sendWindowWait <- struct{}{} // an earlier, not yet consumed notification
	}
	msg, err := pmpx.BuildChannelWindow(pmpx.NewMessageWriterBuffer(ZZ_AcquireBuffer()), s.id, delta)
	zzverif.Assert(err == nil, "build-window-frame")
	m2, _, err := pmpx.ParseMessage(msg.Unwrap().Raw())
	zzverif.Assert(err == nil && m2.Code() == pmpx.Code_ChannelWindow, "parse-window-frame")
	st := s.receiveMessage(m2)
	zzverif.Assert(st.OK(), "receive-window-ok")
	zzverif.Assert(int64(s.sendWindow.Load()) == int64(sw)+int64(delta), "credit-equals-delta")
	zzverif.Assert(len(s.sendWindowWait) == 1, "wake-up-token-left")
	zzverif.Reach("done")
}

func zzC07delta(frame []byte) (int32, bool) {
	m, _, err := pmpx.ParseMessage(frame)
	if err != nil || m.Code() != pmpx.Code_ChannelWindow {
		return 0, false
	}
	return m.ChannelWindow().Delta(), true
}

// ZZ_C07_Consume: ReceiveAsync from an arbitrary receiver state: the accounting is conserved. Either
// no update is sent and the counter accumulates, or exactly one update is sent whose delta equals all
// bytes consumed since the last update and the counter restarts at zero. (When the receiver chooses
// to acknowledge is not fixed here; ZZ_C07_NoDeadlockPair checks it is often enough.)
func ZZ_C07_Consume() {
	w := zzverif.Int32()
	zzverif.Assume(w >= 1 && w <= zzMaxW)
	rb := zzverif.Int32() // consumed since the last update
	zzverif.Assume(rb >= 0 && rb <= w)
	size := zzverif.Int()
	zzverif.Assume(size >= 1 && size <= zzMaxW && int64(rb)+int64(size) < 1<<31-1)
	s, conn, q := zzC07state(w)
	s.recvBytes.Store(rb)
	q.sizes = []int{size}
	ch := &channel{}
	ch.refs.Store(2)
	ch.state.Store(s)
	// the consumer's own context may already be cancelled when it takes a message that is ready (the
	// message is returned all the same): the consumed bytes must still be accounted for, or the sender
	// waits for a credit that never comes (seed C07-r4m2)
	cctx := zzNewCtx()
	if zzverif.Bool() {
		cctx.Cancel()
		zzverif.Reach("cancelled-consumer")
	}
	data, ok, st := ch.ReceiveAsync(cctx)
	zzverif.Assert(st.OK() && ok && len(data) == size, "message-returned")
	total := int64(rb) + int64(size)
	if len(conn.frames) == 0 {
		zzverif.Assert(int64(s.recvBytes.Load()) == total, "counter-accumulates")
		zzverif.Reach("no-update")
	} else {
		zzverif.Assert(len(conn.frames) == 1, "more-than-one-update")
		d, isw := zzC07delta(conn.frames[0])
		zzverif.Assert(isw && int64(d) == total, "delta-equals-consumed")
		zzverif.Assert(s.recvBytes.Load() == 0, "counter-restarts")
		zzverif.Reach("update")
	}
}

// ZZ_C07_NoDeadlockPair: the sender's admission rule and the receiver's acknowledgement rule fit
// together for every window size. The receiver consumes the last outstanding message (real
// ReceiveAsync from an arbitrary counter), its update, if it sends one, is delivered (real
// receiveWindow); now everything sent has been consumed, so the sender's window is W minus the
// receiver's unacknowledged counter. In that state a Send of any size must be admitted: otherwise
// both sides wait forever although the receiver consumed everything.
func ZZ_C07_NoDeadlockPair() {
	w := zzverif.Int32()
	zzverif.Assume(w >= 1 && w <= zzMaxW)
	rb := zzverif.Int32()
	msg := zzverif.Int()
	zzverif.Assume(rb >= 0 && rb <= w && msg >= 1 && int64(rb)+int64(msg) < 1<<31-1) // counters are int32; W, sizes <= 2^30
	zzverif.Assume(msg <= zzMaxW)
	// receiver
	r, rconn, q := zzC07state(w)
	r.recvBytes.Store(rb)
	q.sizes = []int{msg}
	rch := &channel{}
	rch.refs.Store(2)
	rch.state.Store(r)
	_, ok, st := rch.ReceiveAsync(zzNewCtx())
	zzverif.Assume(st.OK() && ok)
	// sender: everything it sent was consumed; window = W - (bytes not yet acknowledged)
	s, _, _ := zzC07state(w)
	s.sendWindow.Store(w - rb - int32(msg))
	for _, f := range rconn.frames {
		m, _, err := pmpx.ParseMessage(f)
		zzverif.Assume(err == nil && m.Code() == pmpx.Code_ChannelWindow)
		zzverif.Assume(s.receiveWindow(m.ChannelWindow()).OK())
	}
	zzverif.Assert(int64(s.sendWindow.Load()) == int64(w)-int64(r.recvBytes.Load()), "window-conservation")
	size := zzverif.Int()
	zzverif.Assume(size >= 1 && size <= zzMaxW)
	probe := zzNewProbe(func() bool { return len(s.sendWindowWait) == 0 })
	st = s.decrementSendWindow(probe, zzverif.Virtual(size))
	zzverif.Assert(st.OK(), "deadlock: everything consumed and acknowledged as far as the receiver will, yet Send is not admitted")
	zzverif.Reach("admitted")
}

// ZZ_C07_History: two real channel states (sender side S, receiver side R) exchanging K symbolic
// operations: send(size), deliver data, consume, deliver window update. The property itself is
// asserted: (bound) whenever a Send is admitted, unacknowledged bytes <= max(W, W - W/2 + size);
// (no deadlock) a Send is never refused while the receiver has consumed everything and no data or
// window update is in flight.
func ZZ_C07_History() {
	w := zzverif.Int32()
	maxw := int32(zzverif.Param("MAXW"))
	zzverif.Assume(w >= 1 && w <= maxw)
	S, _, _ := zzC07state(w)
	S.sendWindow.Store(w)
	R, rconn, rq := zzC07state(w)
	rch := &channel{}
	rch.refs.Store(2)
	rch.state.Store(R)

	var flight []int      // data frames sent, not yet delivered to R's queue
	var updates int       // window frames emitted by R, not yet delivered to S
	var unacked int64 = 0 // bytes sent and not yet acknowledged by a delivered window update
	k := zzverif.Param("K")
	for step := 0; step < k; step++ {
		switch zzverif.Choice(4) {
		case 0: // send
			size := zzverif.Int()
			zzverif.Assume(size >= 1 && size <= 2*int(maxw) && size <= int(zzMaxW)) // sizes stay in the kernels' domain (<= 2^30); larger ones are refused as "message too large"
			probe := zzNewProbe(func() bool { return len(S.sendWindowWait) == 0 })
			st := S.decrementSendWindow(probe, zzverif.Virtual(size))
			if st.OK() {
				unacked += int64(size)
				bound := int64(w)
				if b2 := int64(w) - int64(w/2) + int64(size); b2 > bound {
					bound = b2
				}
				zzverif.Assert(unacked <= bound, "unacknowledged-exceeds-bound")
				flight = append(flight, size)
				zzverif.Reach("sent")
			} else {
				zzverif.Assert(st.Code == zzWouldBlock.Code, "unexpected-status")
				quiescent := len(flight) == 0 && len(rq.sizes) == 0 && updates == len(rconn.frames)
				zzverif.Assert(!quiescent, "deadlock: sender refused although the receiver consumed everything")
				zzverif.Reach("refused")
			}
		case 1: // deliver one data frame
			zzverif.Assume(len(flight) > 0)
			rq.sizes = append(rq.sizes, flight[0])
			flight = flight[1:]
		case 2: // receiver consumes one message
			zzverif.Assume(len(rq.sizes) > 0)
			_, ok, st := rch.ReceiveAsync(zzNewCtx())
			zzverif.Assert(ok && st.OK(), "consume")
		case 3: // deliver one window update to the sender
			zzverif.Assume(updates < len(rconn.frames))
			m, _, err := pmpx.ParseMessage(rconn.frames[updates])
			zzverif.Assert(err == nil, "parse-window-frame")
			updates++
			zzverif.Assert(S.receiveMessage(m).OK(), "receive-window")
			unacked -= int64(m.ChannelWindow().Delta())
			zzverif.Reach("acked")
		}
	}
	zzverif.Reach("done")
}

var _ = status.OK

// ZZ_C07_OpenWindow: the window a channel is opened with is the negotiated window W on both sides,
// whatever payload the opening frame carries: the opening Send debits the payload on the sender,
// announces W in the open frame, and the accepting side starts with window W.
func ZZ_C07_OpenWindow() {
	w := zzverif.Int32()
	zzverif.Assume(w >= 1 && w <= zzMaxW)
	data := zzverif.Bytes(zzverif.Param("LEN"))
	conn := &zzConn{}
	ch := newChannel(conn, true, bin.Bin128{}, w)
	s := ch.unwrap()
	s.ctx = &context{CancelContext: zzNewCtx(), conn: conn}
	s.recvQueue = zzNewQueue()
	var st status.Status
	if zzverif.Bool() {
		st = ch.Send(zzNewCtx(), data)
	} else {
		st = ch.SendAndClose(zzNewCtx(), data)
	}
	zzverif.Assert(st.OK(), "open-send-ok")
	zzverif.Assert(int64(s.sendWindow.Load()) == int64(w)-int64(len(data)), "open-debits-payload")
	zzverif.Assert(len(conn.frames) == 1, "one-frame")
	m, _, err := pmpx.ParseMessage(conn.frames[0])
	zzverif.Assert(err == nil, "frame-parses")
	var open pmpx.ChannelOpen
	switch m.Code() {
	case pmpx.Code_ChannelOpen:
		open = m.ChannelOpen()
	case pmpx.Code_Batch:
		l := m.Batch().List()
		zzverif.Assert(l.Len() == 2, "open+close batch")
		open = l.Get(0).ChannelOpen()
		zzverif.Assert(l.Get(1).Code() == pmpx.Code_ChannelClose, "batch-second-is-close")
	default:
		zzverif.Assert(false, "open-frame-code")
	}
	zzverif.Assert(open.Window() == w, "announced-window-is-negotiated-window")
	zzverif.Assert(string(open.Data()) == string(data), "open-payload")
	// accepting side
	peer := openChannelState(&zzConn{}, false, open)
	zzverif.Assert(peer.initWindow == w && peer.sendWindow.Load() == w, "acceptor-starts-with-negotiated-window")
	zzverif.Reach("done")
}

// ZZ_C07_CloseExempt: the payload of the closing SendAndClose goes out regardless of the window:
// from any window state the call returns OK without waiting, emits exactly one close frame carrying
// the payload, and the channel is closed.
func ZZ_C07_CloseExempt() {
	w := zzverif.Int32()
	zzverif.Assume(w >= 1 && w <= zzMaxW)
	sw := zzverif.Int32()
	zzverif.Assume(sw >= -zzMaxW && sw <= w)
	data := zzverif.Bytes(zzverif.Param("LEN"))
	s, conn, _ := zzC07state(w)
	s.sendWindow.Store(sw)
	ch := &channel{}
	ch.refs.Store(2)
	ch.state.Store(s)
	probe := zzNewProbe(func() bool { return len(s.sendWindowWait) == 0 })
	st := ch.SendAndClose(probe, data)
	zzverif.Assert(st.Code != zzWouldBlock.Code, "closing-message-waited-for-window")
	zzverif.Assert(st.OK(), "send-and-close-ok")
	zzverif.Assert(len(conn.frames) == 1, "one-close-frame")
	m, _, err := pmpx.ParseMessage(conn.frames[0])
	zzverif.Assert(err == nil && m.Code() == pmpx.Code_ChannelClose, "close-frame")
	zzverif.Assert(string(m.ChannelClose().Data()) == string(data), "close-payload")
	zzverif.Assert(s.closed.Load(), "channel-closed")
	zzverif.Reach("done")
}

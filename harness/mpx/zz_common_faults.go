package mpx

import (
	"github.com/basecomplextech/baselibrary/bin"
	"github.com/basecomplextech/baselibrary/status"
	"github.com/basecomplextech/spec/internal/zzverif"
	"github.com/basecomplextech/spec/proto/pmpx"
)

// C09: transport failures terminate cleanly and are never reported as success (sequential fault
// kernels: frame reader, handshake, send path, blocked sender, connection teardown).

// zzC09frames returns the bodies of NF channel-data frames with symbolic ids and payloads.
func zzC09frames(nf int) [][]byte {
	var bodies [][]byte
	for i := 0; i < nf; i++ {
		id := bin.Bin128{}
		copy(id[1][:], zzverif.Bytes(8))
		msg, err := pmpx.BuildChannelData(pmpx.NewMessageWriterBuffer(ZZ_AcquireBuffer()), id, zzverif.Bytes(zzverif.Param("PL")))
		zzverif.Assume(err == nil)
		bodies = append(bodies, append([]byte{}, msg.Unwrap().Raw()...))
	}
	return bodies
}

// ZZ_C09_ReaderCut: a valid session (NF frames written by the real connWriter) is cut at an
// arbitrary byte offset k (EOF or transport error) and served with arbitrary chunking. The frame
// reader returns OK only for frames lying wholly before k, and then exactly their bytes; the first
// read that touches the cut returns a non-OK status; a partial frame is never returned.
func ZZ_C09_ReaderCut() {
	bodies := zzC09frames(zzverif.Param("NF"))
	// the sender's side: real writer into a sink
	ws := zzNewConn(true, nil, true)
	for _, b := range bodies {
		m, _, err := pmpx.ParseMessage(b)
		zzverif.Assume(err == nil)
		zzverif.Assume(ws.c.writer.write(m).OK())
	}
	zzverif.Assume(ws.c.writer.flush().OK())
	wire := ws.nc.out.out
	// header = big-endian body length
	off := 0
	for _, b := range bodies {
		n := int(wire[off])<<24 | int(wire[off+1])<<16 | int(wire[off+2])<<8 | int(wire[off+3])
		zzverif.Assert(n == len(b), "frame-header-is-big-endian-body-length")
		off += 4 + n
	}
	zzverif.Assert(off == len(wire), "writer-emits-exactly-header-plus-body")

	k := zzverif.Choice(len(wire) + 1)
	e := zzNewConn(false, append([]byte{}, wire[:k]...), zzverif.Bool())
	e.nc.in.whole = true
	e.nc.in.partial = zzverif.Param("CHUNKS")
	e.nc.in.coarse = zzverif.Param("COARSE") == 1
	end := 0
	for i := 0; i <= len(bodies); i++ {
		got, st := e.c.reader.read()
		if !st.OK() {
			// the cut lies inside (or right before) frame i
			if i < len(bodies) {
				zzverif.Assert(k < end+4+len(bodies[i]), "complete-frame-not-delivered")
			}
			zzverif.Reach("cut-detected")
			break
		}
		zzverif.Assert(i < len(bodies), "frame-from-nowhere")
		end += 4 + len(bodies[i])
		zzverif.Assert(end <= k, "partial-frame-delivered")
		zzverif.Assert(string(got) == string(bodies[i]), "frame-bytes-differ")
		zzverif.Reach("frame")
	}
}

// ZZ_C09_HandshakeCut: the peer's half of the handshake is cut at an arbitrary offset, or the local
// writes fail from an arbitrary write on: the handshake returns a non-OK status and the connection
// is not marked negotiated. With nothing cut it succeeds.
func ZZ_C09_HandshakeCut() {
	client := zzverif.Param("CLIENT") == 1
	// the well-behaved peer's bytes
	peer := zzNewConn(!client, nil, true)
	zzverif.Assume(peer.c.writer.writeLine(ProtocolLine).OK())
	var m pmpx.Message
	var err error
	if client {
		m, err = pmpx.BuildConnectResponse(pmpx.Version_Version10, pmpx.ConnectCompression_None)
	} else {
		m, err = pmpx.NewConnectInput().Build()
	}
	zzverif.Assume(err == nil)
	zzverif.Assume(peer.c.writer.writeAndFlush(m).OK())
	wire := peer.nc.out.out

	k := zzverif.Choice(len(wire) + 1)
	e := zzNewConn(client, append([]byte{}, wire[:k]...), zzverif.Bool())
	e.nc.in.whole = true
	e.nc.in.partial = zzverif.Param("CHUNKS")
	e.nc.in.coarse = zzverif.Param("COARSE") == 1
	e.nc.out.failAt = zzverif.Choice(4) // 0 = writes never fail
	st := e.c.handshake()
	intact := k == len(wire) && e.nc.out.failAt == 0
	if st.OK() {
		zzverif.Assert(intact || e.nc.out.writes < e.nc.out.failAt, "handshake-ok-on-a-cut-transport")
		zzverif.Assert(k == len(wire), "handshake-ok-on-a-truncated-peer")
		zzverif.Assert(e.shaken.set, "handshake-ok-but-not-negotiated")
		zzverif.Reach("negotiated")
	} else {
		zzverif.Assert(!e.shaken.set, "failed-handshake-marked-negotiated")
		zzverif.Assert(!intact, "intact-handshake-failed")
		zzverif.Reach("failed")
	}
}

// ZZ_C09_SendAfterClose: sending on a connection whose write queue was closed by the teardown
// returns the connection-closed status, for every frame kind, and enqueues nothing.
func ZZ_C09_SendAfterClose() {
	e := zzNewConn(true, nil, true)
	e.shaken.Set()
	e.c.close()
	zzverif.Assert(e.closed.set && e.writeq.closed && e.nc.closes == 1, "teardown")
	msg, err := pmpx.BuildChannelData(pmpx.NewMessageWriterBuffer(ZZ_AcquireBuffer()), bin.Bin128{}, zzverif.Bytes(2))
	zzverif.Assume(err == nil)
	st := e.c.send(zzNewCtx(), msg)
	zzverif.Assert(!st.OK() && st.Code == status.CodeClosed, "send-after-close-must-be-closed")
	zzverif.Assert(len(e.writeq.msgs) == 0, "send-after-close-enqueued")
	_, ok, st2 := e.c.createChannel()
	zzverif.Assert(!ok && !st2.OK(), "channel-created-on-closed-connection")
	zzverif.Reach("done")
}

// ZZ_C09_Teardown: closing a connection with NC open channels (opened by the peer) cancels the
// connection context, closes socket and write queue, cancels every channel context and closes every
// receive queue, notifies the delegate once; a second close changes nothing; nothing panics.
func ZZ_C09_Teardown() {
	e := zzNewConn(false, nil, true)
	e.shaken.Set()
	nc := zzverif.Param("NC")
	var chans []*channel
	for i := 0; i < nc; i++ {
		id := bin.Bin128{}
		id[0][0] = byte(i + 1)
		copy(id[1][:], zzverif.Bytes(8))
		open, err := pmpx.BuildChannelOpen(pmpx.NewMessageWriterBuffer(ZZ_AcquireBuffer()), id, zzverif.Bytes(1), 64)
		zzverif.Assume(err == nil)
		zzverif.Assume(e.c.receiveMessage(open, false).OK())
		ch, ok := e.channels.Get(id)
		zzverif.Assume(ok)
		chans = append(chans, ch.(*channel))
	}
	var states []*channelState
	for _, ch := range chans {
		states = append(states, ch.unwrap())
	}
	e.c.close()
	zzverif.Assert(e.closed.set, "closed-flag")
	zzverif.Assert(e.c.ctx.Done(), "connection-context-cancelled")
	zzverif.Assert(e.nc.closes == 1 && e.writeq.closed, "socket-and-queue-closed")
	zzverif.Assert(e.delegate.closed == 1, "delegate-notified-once")
	for _, s := range states {
		zzverif.Assert(s.closed.Load(), "channel-closed")
		zzverif.Assert(s.ctx.Done(), "channel-context-cancelled")
		zzverif.Assert(s.recvQueue.Closed(), "channel-receive-queue-closed")
	}
	// pending receivers see the buffered open payload, then the end
	for _, ch := range chans {
		_, ok, st := ch.ReceiveAsync(zzNewCtx())
		zzverif.Assert(ok && st.OK(), "pending-payload-still-delivered")
		_, ok, st = ch.ReceiveAsync(zzNewCtx())
		zzverif.Assert(!ok && !st.OK(), "receive-after-teardown-must-not-be-ok")
		st = ch.Send(zzNewCtx(), zzverif.Bytes(1))
		zzverif.Assert(!st.OK(), "send-after-teardown-must-not-be-ok")
	}
	e.c.close()
	zzverif.Assert(e.delegate.closed == 1 && e.nc.closes == 1, "teardown-idempotent")
	zzverif.Reach("done")
}

// ZZ_C09_BlockedSender: a sender blocked on the window (any context) is released with a non-OK
// status when the channel is closed by the teardown.
func ZZ_C09_BlockedSender() {
	w := zzverif.Int32()
	zzverif.Assume(w >= 2 && w <= zzMaxW)
	size := zzverif.Int()
	zzverif.Assume(size >= 1 && size <= zzMaxW)
	sw := zzverif.Int32()
	zzverif.Assume(sw >= -zzMaxW && int64(sw) < int64(size) && sw < w/2)
	s, _, _ := zzC07state(w)
	s.sendWindow.Store(sw)
	s.close() // what closeChannels does to every channel
	st := s.decrementSendWindow(zzNewCtx(), zzverif.Virtual(size))
	zzverif.Assert(!st.OK(), "blocked-sender-released-with-ok")
	zzverif.Assert(st.Code == status.CodeClosed, "blocked-sender-sees-closed")
	zzverif.Reach("done")
}

// zzHookCtx is a caller context that never fires; the first time the code under test asks for its
// wait channel (i.e. when it is about to block in a select) the hook runs one other complete
// operation: a nested preemption exactly at the blocking point.
type zzHookCtx struct {
	zzCtx
	hook func()
}

func (c *zzHookCtx) Wait() <-chan struct{} {
	if h := c.hook; h != nil {
		c.hook = nil
		h()
	}
	return c.ch
}

// ZZ_C09_BlockedThenClosed: the sender is already waiting for the window (about to block in its
// select) when the teardown closes the channel: it must be released with the closed status.
func ZZ_C09_BlockedThenClosed() {
	w := zzverif.Int32()
	zzverif.Assume(w >= 2 && w <= zzMaxW)
	size := zzverif.Int()
	zzverif.Assume(size >= 1 && size <= zzMaxW)
	sw := zzverif.Int32()
	zzverif.Assume(sw >= -zzMaxW && int64(sw) < int64(size) && sw < w/2)
	s, _, _ := zzC07state(w)
	s.sendWindow.Store(sw)
	ctx := &zzHookCtx{hook: func() { s.close() }}
	ctx.ch = make(chan struct{})
	st := s.decrementSendWindow(ctx, zzverif.Virtual(size))
	zzverif.Assert(!st.OK() && st.Code == status.CodeClosed, "sender-blocked-at-close-time-not-released")
	zzverif.Reach("done")
}

package mpx

import (
	"github.com/basecomplextech/baselibrary/bin"
	"github.com/basecomplextech/baselibrary/status"
	"github.com/basecomplextech/spec/internal/zzverif"
	"github.com/basecomplextech/spec/proto/pmpx"
)

// C11: a server runs channel handlers only on connections whose handshake completed with the
// protocol line and a mutually supported version; whatever a peer sends afterwards is answered
// with a connection error or ignored, never with a panic or a handler run it did not ask for.


// zzFirstFrame builds the peer's first frame: a structurally valid message with an arbitrary code
// that may or may not carry a connect request offering NV arbitrary versions and NC compressions.
func zzFirstFrame() (frame []byte, code pmpx.Code, hasReq bool, offers10 bool) {
	code = pmpx.Code(zzverif.Int32())
	hasReq = zzverif.Bool()
	w := pmpx.NewMessageWriter()
	w.Code(code)
	if hasReq {
		w1 := w.ConnectRequest()
		w2 := w1.Versions()
		nv := zzverif.Param("NV")
		for i := 0; i < nv; i++ {
			v := pmpx.Version(zzverif.Int32())
			if v == pmpx.Version_Version10 {
				offers10 = true
			}
			w2.Add(v)
		}
		zzverif.Assume(w2.End() == nil)
		w3 := w1.Compression() // no compression offered: negotiated lz4 starts real lz4 streams (outside)
		zzverif.Assume(w3.End() == nil)
		zzverif.Assume(w1.End() == nil)
	}
	msg, err := w.Build()
	zzverif.Assume(err == nil)
	return zzFrame(msg.Unwrap().Raw()), code, hasReq, offers10
}

// ZZ_C11_ServerHandshake: symbolic protocol line (LN bytes) followed by an arbitrary first frame.
//   handshake returns OK  =>  the line is exactly the protocol line, the first frame is a connect
//   request offering version 10, and the connection is marked as negotiated;
//   handshake does not return OK => the connection is not marked as negotiated.
// run() starts the receive/send loops exactly when handshake returns OK, so this is "handlers run
// only on negotiated connections".
func ZZ_C11_ServerHandshake() {
	ln := zzverif.Param("LN")
	line := zzverif.Bytes(ln)
	for _, c := range line {
		zzverif.Assume(c < 0x80) // ASCII protocol line (keeps text helpers on their byte paths)
	}
	frame, code, hasReq, offers10 := zzFirstFrame()
	stream := append(append([]byte{}, line...), frame...)
	e := zzNewConn(false, stream, true)
	e.nc.in.whole = true // chunking is the subject of C09
	st := e.c.handshake()
	if st.OK() {
		zzverif.Assert(e.shaken.set, "handshake-ok-but-not-negotiated: loops would start on a refused connection")
		zzverif.Assert(string(line) == ProtocolLine, "accepted-wrong-protocol-line")
		zzverif.Assert(code == pmpx.Code_ConnectRequest && hasReq, "accepted-non-request-first-frame")
		zzverif.Assert(offers10, "accepted-without-common-version")
		zzverif.Reach("negotiated")
	} else {
		zzverif.Assert(!e.shaken.set, "failed-handshake-marked-negotiated")
		zzverif.Reach("refused")
	}
	zzverif.Assert(e.handler.calls == 0 && e.handlersRequested() == 0, "handler-ran-during-handshake")
}

// ZZ_C11_CorruptFirstFrame: a well-formed connect request offering version 10 in which one byte (at
// position P of the frame body) is replaced by an arbitrary other value. If the handshake still
// completes, the frame the server accepted is, as a whole, a structurally valid connect request that
// offers version 10; a damaged one is "anything else" and must be refused.
func ZZ_C11_CorruptFirstFrame() {
	w := pmpx.NewMessageWriter()
	w.Code(pmpx.Code_ConnectRequest)
	w1 := w.ConnectRequest()
	w2 := w1.Versions()
	w2.Add(pmpx.Version_Version10)
	w2.Add(pmpx.Version(3))
	zzverif.Assume(w2.End() == nil)
	w3 := w1.Compression()
	zzverif.Assume(w3.End() == nil)
	zzverif.Assume(w1.End() == nil)
	msg, err := w.Build()
	zzverif.Assume(err == nil)
	body := append([]byte{}, msg.Unwrap().Raw()...)
	pos := zzverif.Param("P")
	zzverif.Assume(pos < len(body))
	v := zzverif.Byte()
	zzverif.Assume(v != body[pos])
	body[pos] = v
	stream := append([]byte(ProtocolLine), zzFrame(body)...)
	e := zzNewConn(false, stream, true)
	e.nc.in.whole = true
	st := e.c.handshake()
	if st.OK() {
		m, n, perr := pmpx.ParseMessage(body)
		zzverif.Assert(perr == nil && n == len(body), "accepted-structurally-invalid-first-frame")
		zzverif.Assert(m.Code() == pmpx.Code_ConnectRequest, "accepted-non-request-first-frame")
		offers := false
		vs := m.ConnectRequest().Versions()
		for i := 0; i < vs.Len(); i++ {
			if vs.Get(i) == pmpx.Version_Version10 {
				offers = true
			}
		}
		zzverif.Assert(offers, "accepted-without-common-version")
		zzverif.Assert(e.shaken.set, "handshake-ok-but-not-negotiated")
		zzverif.Reach("still-valid")
	} else {
		zzverif.Assert(!e.shaken.set, "failed-handshake-marked-negotiated")
		zzverif.Reach("refused")
	}
	zzverif.Assert(e.handlersRequested() == 0, "handler-ran-during-handshake")
}

// ZZ_C11_ServerHandshakeLZ4 is excluded: negotiated compression starts lz4 streams (outside).

// ZZ_C11_Dispatch: on a negotiated connection an arbitrary structurally valid frame is dispatched:
// unknown codes, nested batches and duplicate channel ids are connection errors; frames for
// unknown channels are ignored; a handler is started only by a channel-open frame for a new id.
func ZZ_C11_Dispatch() {
	e := zzNewConn(false, nil, true)
	e.shaken.Set()
	ida, idb := bin.Bin128{}, bin.Bin128{}
	copy(ida[0][:], zzverif.Bytes(8))
	copy(idb[0][:], zzverif.Bytes(8))
	// an existing channel with id A
	open, err := pmpx.BuildChannelOpen(pmpx.NewMessageWriterBuffer(ZZ_AcquireBuffer()), ida, nil, 1024)
	zzverif.Assume(err == nil)
	zzverif.Assume(e.c.receiveMessage(open, false).OK())
	zzverif.Assume(e.handlersRequested() == 1)

	var msg pmpx.Message
	kind := zzverif.Choice(7)
	switch kind {
	case 0: // arbitrary code, no body
		w := pmpx.NewMessageWriter()
		w.Code(pmpx.Code(zzverif.Int32()))
		msg, err = w.Build()
	case 1: // open for an arbitrary id (A again = duplicate)
		msg, err = pmpx.BuildChannelOpen(pmpx.NewMessageWriterBuffer(ZZ_AcquireBuffer()), idb, zzverif.Bytes(1), 7)
	case 2:
		msg, err = pmpx.BuildChannelData(pmpx.NewMessageWriterBuffer(ZZ_AcquireBuffer()), idb, zzverif.Bytes(2))
	case 3:
		msg, err = pmpx.BuildChannelWindow(pmpx.NewMessageWriterBuffer(ZZ_AcquireBuffer()), idb, zzverif.Int32())
	case 4:
		msg, err = pmpx.BuildChannelClose(pmpx.NewMessageWriterBuffer(ZZ_AcquireBuffer()), idb, nil)
	case 5: // batch: open(B) + close(B)
		b := pmpx.NewBatchBuilder(ZZ_AcquireBuffer())
		b, _ = b.Open(idb, nil, 5)
		b, _ = b.Close(idb, nil)
		msg, err = b.Build()
	case 6: // nested batch: a batch frame whose element is itself a batch frame
		w := pmpx.NewMessageWriter()
		w.Code(pmpx.Code_Batch)
		bw := w.Batch()
		l := bw.List()
		in := l.Add()
		in.Code(pmpx.Code_Batch)
		zzverif.Assume(in.End() == nil)
		zzverif.Assume(l.End() == nil)
		zzverif.Assume(bw.End() == nil)
		msg, err = w.Build()
	}
	zzverif.Assume(err == nil)
	// through the wire format: what the peer sends is bytes
	parsed, _, perr := pmpx.ParseMessage(msg.Unwrap().Raw())
	zzverif.Assume(perr == nil)
	st := e.c.receiveMessage(parsed, false)
	code := parsed.Code()
	dup := idb == ida
	switch {
	case kind == 0:
		valid := code == pmpx.Code_Batch || code == pmpx.Code_ChannelOpen || code == pmpx.Code_ChannelClose ||
			code == pmpx.Code_ChannelData || code == pmpx.Code_ChannelWindow
		if !valid {
			zzverif.Assert(!st.OK(), "unknown-code-accepted")
			zzverif.Assert(e.handlersRequested() == 1, "unknown-code-started-handler")
		}
	case kind == 1 && dup:
		zzverif.Assert(!st.OK(), "duplicate-channel-id-accepted")
		zzverif.Assert(e.handlersRequested() == 1, "duplicate-open-started-second-handler")
		zzverif.Reach("duplicate")
	case kind == 1:
		zzverif.Assert(st.OK() && e.handlersRequested() == 2, "valid-open-must-start-one-handler")
	case kind == 2 || kind == 3 || kind == 4:
		zzverif.Assert(st.OK(), "frame-for-known-or-unknown-channel-must-not-fail-the-connection")
		zzverif.Assert(e.handlersRequested() == 1, "non-open-frame-started-handler")
	case kind == 5 && !dup:
		zzverif.Assert(st.OK() && e.handlersRequested() == 2, "open+close-batch-starts-one-handler")
	case kind == 5:
		zzverif.Assert(!st.OK() && e.handlersRequested() == 1, "duplicate-open-in-batch")
	case kind == 6:
		zzverif.Assert(!st.OK(), "nested-batch-accepted")
		zzverif.Reach("nested")
	}
	zzverif.Reach("done")
}

// ZZ_C11_Garbage: arbitrary bytes as a frame body on a negotiated connection: parse error or a
// dispatch that never panics and never starts a handler unless it is a well-formed open.
func ZZ_C11_Garbage() {
	body := zzverif.Bytes(zzverif.Param("L"))
	e := zzNewConn(false, zzFrame(body), true)
	e.nc.in.whole = true
	e.shaken.Set()
	msg, st := e.c.reader.readMessage()
	if st.OK() {
		st = e.c.receiveMessage(msg, false)
		if e.handlersRequested() > 0 {
			zzverif.Assert(msg.Code() == pmpx.Code_ChannelOpen || msg.Code() == pmpx.Code_Batch, "handler-started-by-non-open")
		}
	}
	// the next read hits the end of the stream: a clean non-OK status, no partial frame
	_, st2 := e.c.reader.readMessage()
	zzverif.Assert(!st2.OK(), "read-past-end-ok")
	zzverif.Reach("done")
}

var _ = status.OK

package mpx

import (
	"time"

	"github.com/basecomplextech/baselibrary/async"
	"github.com/basecomplextech/baselibrary/status"
	"github.com/basecomplextech/spec/internal/zzverif"
)

// C19: client connection state. (a) back-off over every attempt number, (b) connection choice,
// (c) each critical section of the client from an arbitrary state: flags exclusive, bound on
// connections, Close terminal and idempotent, a failed on-demand dial leaves the client able to
// dial again.

// ---- fakes ------------------------------------------------------------------------------------------

// zzClientConn is a connection as the client sees it.
type zzClientConn struct {
	zzConn
	closed     *zzFlag
	closeCalls int
}

func zzNewClientConn(closed bool) *zzClientConn {
	return &zzClientConn{closed: zzNewFlag(closed)}
}
func (c *zzClientConn) Closed() async.Flag { return c.closed }
func (c *zzClientConn) Close() status.Status {
	c.closeCalls++
	c.closed.Set()
	return status.OK
}

// zzConnector returns a prepared result. Natively the real async.Run starts a goroutine for every
// dial the client schedules; those goroutines must not touch the replay script, so a dial that was
// not issued by the kernel itself parks forever.
type zzConnector struct {
	conn  internalConn
	st    status.Status
	armed bool
	calls int
}

func (z *zzConnector) connect(ctx async.Context, addr string) (internalConn, status.Status) {
	if !z.armed {
		select {} // scheduled by the client in the background: outside the kernel
	}
	z.armed = false
	z.calls++
	return z.conn, z.st
}

// zzRoutine stands for a dial in flight (engine override of async.Run).
type zzRoutine struct {
	stopped bool
	ch      chan struct{}
}

func ZZ_RunConnect(fn async.Func[internalConn]) async.Routine[internalConn] {
	return &zzRoutine{ch: make(chan struct{})}
}
func (r *zzRoutine) Done() bool                                 { return false }
func (r *zzRoutine) Wait() <-chan struct{}                      { return r.ch }
func (r *zzRoutine) Result() (internalConn, status.Status)     { return nil, status.OK }
func (r *zzRoutine) Status() status.Status                      { return status.OK }
func (r *zzRoutine) Start()                                     {}
func (r *zzRoutine) Stop() <-chan struct{}                      { r.stopped = true; return r.ch }
func (r *zzRoutine) OnStop(fn func(async.Routine[internalConn])) bool { return false }

// ---- arbitrary client state ---------------------------------------------------------------------------

type zzClientEnv struct {
	c      *client
	conns  []*zzClientConn
	zc     *zzConnector
	closed *zzFlag
	conn   *zzFlag
	disc   *zzFlag
	attempt0 int
}

// zzArbitraryClient builds a client in an arbitrary state satisfying the invariant J:
//   closed => (no connections, not connected, disconnected)
//   exactly one of connected / disconnected
//   connected => at least one connection in the list
//   #connections + [dial in flight] <= max(1, MaxConns) when MaxConns > 0
func zzArbitraryClient() *zzClientEnv {
	e := &zzClientEnv{zc: &zzConnector{}}
	n := zzverif.Choice(4)
	max := zzverif.Choice(4)
	closed := zzverif.Bool()
	connected := zzverif.Bool()
	dialing := zzverif.Bool()
	auto := zzverif.Bool()
	e.closed, e.conn, e.disc = zzNewFlag(closed), zzNewFlag(connected), zzNewFlag(!connected)
	mode := ClientMode_OnDemand
	if auto {
		mode = ClientMode_AutoConnect
	}
	c := &client{addr: "x", mode: mode, connector: e.zc, options: Options{ClientMaxConns: max},
		closed_: e.closed, connected_: e.conn, disconnected_: e.disc}
	cc := newClientConns()
	for i := 0; i < n; i++ {
		k := zzNewClientConn(zzverif.Bool())
		e.conns = append(e.conns, k)
		cc.conns = append(cc.conns, k)
	}
	c.conns.Store(cc)
	if dialing {
		c.connecting.Set(&zzRoutine{ch: make(chan struct{})})
	}
	lim := max
	if lim < 1 {
		lim = 1
	}
	inflight := 0
	if dialing {
		inflight = 1
	}
	zzverif.Assume(!closed || (n == 0 && !connected))
	zzverif.Assume(!connected || n > 0)
	zzverif.Assume(max == 0 || n+inflight <= lim)
	// position in the current run of failed dials (0 after a success)
	att := zzverif.Int()
	zzverif.Assume(att >= 0 && att <= 1000)
	c.connectAttempt = att
	e.attempt0 = att
	e.c = c
	return e
}

// attemptKept: a step that establishes no connection does not move the client back in its run of
// failed dials (the back-off never decreases within a run of failures).
func (e *zzClientEnv) attemptKept() bool { return e.c.connectAttempt >= e.attempt0 }

func (e *zzClientEnv) exclusive() bool { return e.conn.set != e.disc.set }

// ---- (a) back-off ---------------------------------------------------------------------------------------

func ZZ_C19_Backoff() {
	a := zzverif.Int()
	zzverif.Assume(a >= 2)
	t := reconnectTimeout(a)
	zzverif.Assert(t >= 25*time.Millisecond, "backoff-below-25ms")
	zzverif.Assert(t <= time.Second, "backoff-above-1s")
	zzverif.Assume(a < 1<<62)
	zzverif.Assert(reconnectTimeout(a+1) >= t, "backoff-decreases")
	zzverif.Reach("done")
}

// ---- (b) connection choice ---------------------------------------------------------------------------

func ZZ_C19_RoundRobin() {
	n := zzverif.Param("N")
	cc := newClientConns()
	anyOpen := false
	var ks []*zzClientConn
	for i := 0; i < n; i++ {
		k := zzNewClientConn(zzverif.Bool())
		ks = append(ks, k)
		cc.conns = append(cc.conns, k)
		if !k.closed.set {
			anyOpen = true
		}
	}
	got, ok := cc.roundRobin()
	zzverif.Assert(ok == anyOpen, "returns a connection iff an open one exists")
	if ok {
		zzverif.Assert(!got.Closed().IsSet(), "returned a closed connection")
	}
	zzverif.Reach("done")
}

// ---- (c) critical sections -----------------------------------------------------------------------------

func ZZ_C19_Close() {
	e := zzArbitraryClient()
	c := e.c
	dial, dialing := c.connecting.Unwrap()
	wasClosed := e.closed.set
	st := c.Close()
	zzverif.Assert(st.OK(), "close-ok")
	zzverif.Assert(e.closed.set && !e.conn.set && e.disc.set, "close-flags")
	zzverif.Assert(c.conns.Load().len() == 0, "close-drops-connections")
	for _, k := range e.conns {
		zzverif.Assert(k.closed.set, "close-closes-every-connection")
	}
	_, still := c.connecting.Unwrap()
	// (an already closed auto-connect client may legitimately have a dial in flight whose result
	// will be discarded: only the closing call itself must cancel the dial)
	zzverif.Assert(wasClosed || !still, "close-cancels-dial")
	if dialing && !wasClosed {
		if r, ok := dial.(*zzRoutine); ok {
			zzverif.Assert(r.stopped, "close-stops-dial")
		}
	}
	// idempotent and terminal
	calls := 0
	for _, k := range e.conns {
		calls += k.closeCalls
	}
	zzverif.Assert(c.Close().OK(), "second-close-ok")
	calls2 := 0
	for _, k := range e.conns {
		calls2 += k.closeCalls
	}
	zzverif.Assert(calls2 == calls && e.closed.set && !e.conn.set && e.disc.set, "close-idempotent")
	conn, fut, st2 := c.conn()
	zzverif.Assert(!st2.OK() && st2.Code == status.CodeClosed && conn == nil && fut == nil, "call-after-close-is-closed")
	_, dialingNow := c.connecting.Unwrap()
	zzverif.Assert(dialingNow == still, "call-after-close-started-a-dial")
	zzverif.Reach("done")
}

// ZZ_C19_DialResult: the tail of a dial (connectRecover) for an arbitrary dial outcome and an
// arbitrary client state, including "Close ran while the dial was in flight".
func ZZ_C19_DialResult() {
	e := zzArbitraryClient()
	c := e.c
	// this kernel is the in-flight dial
	c.connecting.Set(&zzRoutine{ch: make(chan struct{})})
	newc := zzNewClientConn(false)
	ok := zzverif.Bool()
	e.zc.armed = true
	if ok {
		e.zc.conn, e.zc.st = newc, status.OK
	} else {
		e.zc.conn, e.zc.st = nil, status.Status{Code: status.CodeUnavailable}
	}
	before := c.conns.Load().len()
	wasClosed := e.closed.set
	got, st := c.connectRecover(zzNewCtx())
	after := c.conns.Load().len()
	switch {
	case !ok:
		zzverif.Assert(!st.OK() && got == nil && after == before, "failed-dial-adds-nothing")
	case wasClosed:
		zzverif.Assert(!st.OK() && st.Code == status.CodeClosed, "late-dial-after-close-reports-closed")
		zzverif.Assert(after == 0 && newc.closed.set, "late-dial-after-close-left-a-connection-open")
		zzverif.Assert(!e.conn.set && e.disc.set, "late-dial-after-close-changed-flags")
		zzverif.Reach("late-dial")
	default:
		zzverif.Assert(st.OK() && got == internalConn(newc), "dial-returns-connection")
		zzverif.Assert(after == before+1, "dial-adds-one-connection")
		zzverif.Assert(e.conn.set && !e.disc.set, "dial-sets-connected")
		zzverif.Reach("connected")
	}
	zzverif.Assert(e.exclusive(), "flags-exclusive")
}

// ZZ_C19_DialDone: connect1 (dial + bookkeeping). After a failed dial an on-demand client must be
// able to dial again on the next call (no stale dial left registered); an auto-connect client has
// scheduled the next attempt.
func ZZ_C19_DialDone() {
	e := zzArbitraryClient()
	c := e.c
	zzverif.Assume(!e.closed.set)
	c.connecting.Set(&zzRoutine{ch: make(chan struct{})})
	ok := zzverif.Bool()
	e.zc.armed = true
	newc := zzNewClientConn(false)
	if ok {
		e.zc.conn, e.zc.st = newc, status.OK
	} else {
		e.zc.conn, e.zc.st = nil, status.Status{Code: status.CodeUnavailable}
	}
	_, st := c.connect1(zzNewCtx())
	_, dialing := c.connecting.Unwrap()
	if ok {
		zzverif.Assert(st.OK() && !dialing, "successful-dial-clears-registration")
	} else if c.mode == ClientMode_AutoConnect {
		zzverif.Assert(!st.OK() && dialing, "auto-connect-schedules-next-attempt")
		zzverif.Reach("retry")
	} else {
		zzverif.Assert(!st.OK() && !dialing, "failed-on-demand-dial-stays-registered")
		// the next call dials again
		_, fut, st2 := c.conn()
		if c.conns.Load().len() == 0 {
			zzverif.Assert(st2.OK() && fut != nil, "next-call-does-not-dial")
		}
		zzverif.Reach("on-demand-failed")
	}
	zzverif.Assert(e.exclusive(), "flags-exclusive")
}

// ZZ_C19_ConnLost: onConnClosed for an arbitrary connection of an arbitrary client.
func ZZ_C19_ConnLost() {
	e := zzArbitraryClient()
	c := e.c
	zzverif.Assume(len(e.conns) > 0)
	i := zzverif.Choice(len(e.conns))
	e.conns[i].closed.Set()
	c.onConnClosed(e.conns[i])
	left := c.conns.Load().len()
	zzverif.Assert(left == len(e.conns)-1, "lost-connection-removed")
	zzverif.Assert(e.exclusive(), "flags-exclusive")
	if left == 0 {
		zzverif.Assert(!e.conn.set && e.disc.set, "last-connection-lost-means-disconnected")
		zzverif.Reach("disconnected")
	}
	_, dialing := c.connecting.Unwrap()
	if left == 0 && c.mode == ClientMode_AutoConnect && !e.closed.set {
		zzverif.Assert(dialing, "auto-connect-redials")
	}
	zzverif.Reach("done")
}

// ZZ_C19_Obtain: the slow path of obtaining a connection from an arbitrary open client.
func ZZ_C19_Obtain() {
	e := zzArbitraryClient()
	c := e.c
	zzverif.Assume(!e.closed.set)
	anyOpen := false
	for _, k := range e.conns {
		if !k.closed.set {
			anyOpen = true
		}
	}
	conn, fut, st := c.conn()
	zzverif.Assert(st.OK(), "obtain-ok")
	if anyOpen {
		zzverif.Assert(conn != nil && !conn.Closed().IsSet(), "connected-implies-usable-connection")
		zzverif.Reach("usable")
	} else {
		zzverif.Assert(conn == nil && fut != nil, "no-open-connection-waits-for-dial")
		zzverif.Assert(!e.conn.set && e.disc.set, "no-open-connection-means-disconnected")
		_, dialing := c.connecting.Unwrap()
		zzverif.Assert(dialing, "dial-started")
		zzverif.Reach("dialing")
	}
	zzverif.Assert(e.exclusive(), "flags-exclusive")
	zzverif.Assert(e.attemptKept(), "application-call-restarted-the-back-off")
}

// ZZ_C19_MaxConns: the channels-target callback never schedules a dial that would take the client
// above the configured maximum, and schedules one below it.
func ZZ_C19_MaxConns() {
	e := zzArbitraryClient()
	c := e.c
	zzverif.Assume(!e.closed.set && len(e.conns) > 0)
	_, was := c.connecting.Unwrap()
	c.onConnChannelsReached(e.conns[0])
	_, now := c.connecting.Unwrap()
	max := c.options.ClientMaxConns
	n := len(e.conns)
	if max <= 0 || n >= max {
		zzverif.Assert(now == was, "dial-above-maximum")
		zzverif.Reach("at-max")
	} else {
		zzverif.Assert(now, "no-dial-below-maximum")
		zzverif.Reach("below-max")
	}
	inflight := 0
	if now {
		inflight = 1
	}
	if max > 0 {
		lim := max
		if lim < 1 {
			lim = 1
		}
		zzverif.Assert(n+inflight <= lim, "connections-exceed-maximum")
	}
}

package mpx

import (
	"bufio"
	"io"
	"net"
	
	


	"github.com/basecomplextech/baselibrary/async"
	"github.com/basecomplextech/baselibrary/async/asyncmap"
	"github.com/basecomplextech/baselibrary/bin"
	"github.com/basecomplextech/baselibrary/logging"
	"github.com/basecomplextech/baselibrary/status"
	"github.com/basecomplextech/spec/internal/zzverif"
)

// Connection-level fakes shared by C03, C06, C09, C11, C20.

// ---- asyncmap.AtomicMap ---------------------------------------------------------------------------------

// zzMap is a slice-backed map with the documented semantics of asyncmap.Map (insertion order Range).
// An optional hook runs before Get/Delete/Set/GetOrSet return: it models "another complete
// operation runs between this map access and the caller's next step" (one nested preemption).
type zzMap[K comparable, V any] struct {
	keys []K
	vals []V
	hook func(op string)
}

func (m *zzMap[K, V]) find(k K) int {
	for i := range m.keys {
		if m.keys[i] == k {
			return i
		}
	}
	return -1
}
func (m *zzMap[K, V]) fire(op string) {
	if h := m.hook; h != nil {
		m.hook = nil // one preemption
		h(op)
	}
}
func (m *zzMap[K, V]) Len() int             { return len(m.keys) }
func (m *zzMap[K, V]) Clear()               { m.keys, m.vals = nil, nil }
func (m *zzMap[K, V]) Contains(k K) bool    { return m.find(k) >= 0 }
func (m *zzMap[K, V]) Get(k K) (v V, ok bool) {
	if i := m.find(k); i >= 0 {
		v, ok = m.vals[i], true
	}
	m.fire("get")
	return
}
func (m *zzMap[K, V]) GetOrSet(k K, v V) (V, bool) {
	if i := m.find(k); i >= 0 {
		return m.vals[i], true
	}
	m.keys = append(m.keys, k)
	m.vals = append(m.vals, v)
	m.fire("getorset")
	return v, false
}
func (m *zzMap[K, V]) Delete(k K) (v V, ok bool) {
	if i := m.find(k); i >= 0 {
		v, ok = m.vals[i], true
		m.keys = append(append([]K{}, m.keys[:i]...), m.keys[i+1:]...)
		m.vals = append(append([]V{}, m.vals[:i]...), m.vals[i+1:]...)
	}
	m.fire("delete")
	return
}
func (m *zzMap[K, V]) LockMap() asyncmap.LockedMap[K, V] {
	zzverif.Unsupported("LockMap")
	return nil
}
func (m *zzMap[K, V]) Set(k K, v V) {
	if i := m.find(k); i >= 0 {
		m.vals[i] = v
	} else {
		m.keys = append(m.keys, k)
		m.vals = append(m.vals, v)
	}
	m.fire("set")
}
func (m *zzMap[K, V]) SetAbsent(k K, v V) bool {
	if m.find(k) >= 0 {
		return false
	}
	m.keys = append(m.keys, k)
	m.vals = append(m.vals, v)
	return true
}
func (m *zzMap[K, V]) Swap(k K, v V) (old V, ok bool) {
	if i := m.find(k); i >= 0 {
		old, ok = m.vals[i], true
		m.vals[i] = v
		return
	}
	m.keys = append(m.keys, k)
	m.vals = append(m.vals, v)
	return
}
func (m *zzMap[K, V]) Range(fn func(K, V) bool) {
	ks := append([]K{}, m.keys...)
	vs := append([]V{}, m.vals...)
	for i := range ks {
		if !fn(ks[i], vs[i]) {
			return
		}
	}
}

// ---- byte stream ------------------------------------------------------------------------------------------

// zzStream is the peer's byte stream: Read hands out an arbitrary non-empty chunk of what is left
// (arbitrary chunking) and fails at the end (cut = EOF or error).
type zzStream struct {
	data   []byte
	pos    int
	reads  int
	errEOF bool // at the end: io.EOF (true) or a transport error (false)
	whole  bool // hand out as much as fits (no arbitrary chunking)
	partial int // with whole: number of reads that may still return an arbitrary smaller chunk
	coarse  bool // partial chunk sizes come from {1, 2, 5, max-1} instead of every size
	block   chan struct{} // non-nil: at the end a read blocks until this channel is closed (socket closed), then fails
}

var zzErrCut = &net.OpError{Op: "read", Err: io.ErrClosedPipe}

func (s *zzStream) Read(p []byte) (int, error) {
	s.reads++
	rem := len(s.data) - s.pos
	if rem == 0 || len(p) == 0 {
		if s.block != nil {
			<-s.block // a reader stuck in Read is released only by closing the socket
			return 0, zzErrCut
		}
		if s.errEOF {
			return 0, io.EOF
		}
		return 0, zzErrCut
	}
	max := rem
	if len(p) < max {
		max = len(p)
	}
	n := max
	if !s.whole {
		n = 1 + zzverif.Choice(max)
	} else if s.partial > 0 && max > 1 {
		s.partial--
		if s.coarse {
			switch zzverif.Choice(5) {
			case 0:
				n = 1
			case 1:
				n = 2
			case 2:
				n = 5
			case 3:
				n = max - 1
			}
			if n > max {
				n = max
			}
		} else {
			n = 1 + zzverif.Choice(max)
		}
	}
	copy(p, s.data[s.pos:s.pos+n])
	s.pos += n
	return n, nil
}

// zzSink captures what the connection writes; it fails from write number failAt on (0 = never).
type zzSink struct {
	out      []byte
	writes   int
	failAt   int
	failWhen func() bool // non-nil: a write fails once this holds
}

func (s *zzSink) Write(p []byte) (int, error) {
	s.writes++
	if s.failAt != 0 && s.writes >= s.failAt {
		return 0, zzErrCut
	}
	if s.failWhen != nil && s.failWhen() {
		return 0, zzErrCut
	}
	s.out = append(s.out, p...)
	return len(p), nil
}

// zzNetConn is the socket.
type zzNetConn struct {
	net.Conn // nil: only Close/Read/Write are used
	in       *zzStream
	out      *zzSink
	closes   int
	onClose  func() // one nested preemption while the socket is being closed
}

func (c *zzNetConn) Read(p []byte) (int, error)  { return c.in.Read(p) }
func (c *zzNetConn) Write(p []byte) (int, error) { return c.out.Write(p) }
func (c *zzNetConn) Close() error {
	c.closes++
	if c.in.block != nil && c.closes == 1 {
		close(c.in.block)
	}
	if h := c.onClose; h != nil {
		c.onClose = nil
		h()
	}
	return nil
}

// ---- handler, worker pool, delegate, logger ---------------------------------------------------------------

// zzHandler is the server's channel handler. A handler start is a separate complete operation of
// the harness: the worker pool (async.ZZGatedPool, added to baselibrary's async package through the
// build overlay) records the runner and zzWorkers.runNext runs it inline, in the engine and natively
// alike, so both worlds execute the same sequential order and no goroutine is involved.
type zzHandler struct {
	calls int
	chans []Channel
	ctxs  []Context
	ret   status.Status
	panic bool
	free  bool // the handler frees its channel itself before it returns (sloppy but legal use)
}

func zzNewHandler() *zzHandler {
	return &zzHandler{ret: status.OK}
}

func (h *zzHandler) HandleChannel(ctx Context, ch Channel) status.Status {
	h.calls++
	h.chans = append(h.chans, ch)
	h.ctxs = append(h.ctxs, ctx)
	if h.free {
		ch.Free()
	}
	if h.panic {
		panic("handler panic")
	}
	return h.ret
}

// zzWorkers replaces the package-level worker pool.
type zzWorkers struct {
	async.ZZGatedPool
	handler *zzHandler
}

// runNext starts the next pending handler (of channel ch, or any when ch is nil) and lets it run to
// completion, including its deferred channel release.
func (w *zzWorkers) runNext(ch *channel) bool {
	for i, r := range w.Pending {
		if h, ok := r.(*channelHandler); ok && (ch == nil || h.ch == ch) {
			w.Pending = append(append([]async.Runner{}, w.Pending[:i]...), w.Pending[i+1:]...)
			r.Run()
			return true
		}
	}
	return false
}

// zzPool is a LIFO object pool (pools.Pool contract: Get/New/Put) with a one-shot preemption point
// right after Put: one other complete operation may run between the moment an object becomes
// available to others and whatever the releasing code still does with it.
type zzPool[T any] struct {
	items []T
	newFn func() T
	hook  func()
}

func (p *zzPool[T]) Get() (v T, ok bool) {
	if n := len(p.items); n > 0 {
		v = p.items[n-1]
		p.items = p.items[:n-1]
		return v, true
	}
	return v, false
}

func (p *zzPool[T]) New() T {
	if v, ok := p.Get(); ok {
		return v
	}
	return p.newFn()
}

func (p *zzPool[T]) Put(v T) {
	p.items = append(p.items, v)
	if h := p.hook; h != nil {
		p.hook = nil
		h()
	}
}

type zzDelegate struct {
	closed  int
	reached int
}

func (d *zzDelegate) onConnClosed(c internalConn)          { d.closed++ }
func (d *zzDelegate) onConnChannelsReached(c internalConn) { d.reached++ }

type zzLoggerBase = logging.Logger

type zzLogger struct {
	zzLoggerBase // nil
	errors       int
	msgs         []string
	sts          []status.Status
}

func (l *zzLogger) ErrorStatus(msg string, st status.Status, keyValues ...any) {
	l.errors++
	l.msgs = append(l.msgs, msg)
	l.sts = append(l.sts, st)
}

// ---- a connection built directly from its parts ------------------------------------------------------------

type zzConnEnv struct {
	c        *conn
	nc       *zzNetConn
	handler  *zzHandler
	workers  *zzWorkers
	delegate *zzDelegate
	logger   *zzLogger
	writeq   *zzQueue
	channels *zzMap[bin.Bin128, internalChannel]
	lsn      *zzMap[int64, func()]
	closed   *zzFlag
	shaken   *zzFlag
}

// zzNewConn builds a server-side (client=false) or client-side connection over the given inbound
// byte stream, skipping newConn (no sockets, no goroutines).
func zzNewConn(client bool, inbound []byte, eof bool) *zzConnEnv {
	e := &zzConnEnv{
		nc:       &zzNetConn{in: &zzStream{data: inbound, errEOF: eof}, out: &zzSink{}},
		handler:  zzNewHandler(),
		workers:  &zzWorkers{},
		delegate: &zzDelegate{},
		logger:   &zzLogger{},
		writeq:   zzNewQueue(),
		channels: &zzMap[bin.Bin128, internalChannel]{},
		lsn:      &zzMap[int64, func()]{},
		closed:   zzNewFlag(false),
		shaken:   zzNewFlag(false),
	}
	e.workers.handler = e.handler
	workerPool = &e.workers.ZZGatedPool
	src := bufio.NewReaderSize(e.nc, 64)
	dst := bufio.NewWriterSize(e.nc, 64)
	c := &conn{
		conn:     e.nc,
		client:   client,
		delegate: e.delegate,
		handler:  e.handler,
		logger:   e.logger,
		options:  Options{ChannelWindowSize: 1 << 16},
		closed:   e.closed, handshaked: e.shaken,
		reader:          &connReader{src: src, reader: src, client: client, buf: ZZ_AcquireBuffer()},
		writer:          &connWriter{dst: dst, client: client, writer: dst},
		writeq:          e.writeq,
		channels:        e.channels,
		closedListeners: e.lsn,
	}
	c.ctx = &connContext{CancelContext: zzNewCtx(), conn: c}
	e.c = c
	return e
}

// handlersRequested is the number of handler starts the connection asked the worker pool for.
func (e *zzConnEnv) handlersRequested() int { return e.workers.Started }

// pendingChannel returns the channel of the first handler the connection asked to start.
func (w *zzWorkers) pendingChannel() *channel {
	for _, r := range w.Pending {
		if h, ok := r.(*channelHandler); ok {
			return h.ch
		}
	}
	return nil
}


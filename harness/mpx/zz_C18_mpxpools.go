package mpx

import (
	"github.com/basecomplextech/baselibrary/bin"
	"github.com/basecomplextech/spec/internal/zzverif"
)

// C18, mpx channel state pool: the inductive recycling step. A channel state with arbitrary field
// values (flags, window, counters, a pending wake-up token, buffered and/or closed receive queue)
// is released; the next channel built from the pool must behave as a fresh one: no flag, window,
// counter, wake-up token, buffered byte or closed queue of the previous owner is visible.
func ZZ_C18_ChannelStateRecycle() {
	conn := &zzConn{}
	q := zzNewQueue()
	s := &channelState{
		ctx:            &context{CancelContext: zzNewCtx(), conn: conn},
		conn:           conn,
		client:         zzverif.Bool(),
		initWindow:     zzverif.Int32(),
		sendWindowWait: make(chan struct{}, 1),
		recvQueue:      q,
	}
	copy(s.id[0][:], zzverif.Bytes(8))
	s.opened.Store(zzverif.Bool())
	s.closed.Store(zzverif.Bool())
	s.closedUser.Store(zzverif.Bool())
	s.sendWindow.Store(zzverif.Int32())
	s.recvBytes.Store(zzverif.Int32())
	s.sender = newChanSender(s, conn)
	if zzverif.Bool() {
		s.sendWindowWait <- struct{}{} // a wake-up nobody consumed
	}
	if zzverif.Bool() {
		q.Write(zzverif.Bytes(1)) // unread data of the previous owner
	}
	if zzverif.Bool() {
		q.Close()
	}
	// the pool of this run hands the released state straight to the next acquirer
	orig := channelStatePool
	pool := &zzPool[*channelState]{newFn: func() *channelState { return orig.New() }}
	channelStatePool = pool
	defer func() { channelStatePool = orig }()
	releaseChannelState2(s)

	id := bin.Bin128{}
	copy(id[0][:], zzverif.Bytes(8))
	w := zzverif.Int32()
	zzverif.Assume(w >= 1 && w <= zzMaxW)
	conn2 := &zzConn{}
	n := newChannelState(conn2, true, id, w)
	zzverif.Assert(n == s, "pool-hands-out-the-released-state")
	zzverif.Assert(n.id == id && n.conn == conn2 && n.client && n.initWindow == w, "constructor fields")
	zzverif.Assert(!n.opened.Load() && !n.closed.Load() && !n.closedUser.Load(), "recycled channel state keeps open/closed flags")
	zzverif.Assert(n.sendWindow.Load() == w, "recycled channel state keeps a send window")
	zzverif.Assert(n.recvBytes.Load() == 0, "recycled channel state keeps a receive counter")
	zzverif.Assert(len(n.sendWindowWait) == 0, "recycled channel state keeps a wake-up token")
	zzverif.Assert(n.ctx != nil && !n.ctx.Done(), "recycled channel state has a cancelled context")
	zzverif.Assert(!n.recvQueue.Closed(), "recycled channel state has a closed receive queue")
	_, ok, st := n.recvQueue.Read()
	zzverif.Assert(!ok && st.OK(), "recycled channel state delivers the previous owner's data")
	zzverif.Assert(n.sender.ch == n && n.sender.conn == internalConn(conn2), "sender bound to another state")
	zzverif.Reach("done")
}

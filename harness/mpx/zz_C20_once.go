package mpx

import (
	"github.com/basecomplextech/baselibrary/bin"
	"github.com/basecomplextech/spec/internal/zzverif"
	"github.com/basecomplextech/spec/proto/pmpx"
)

// C20: handlers and close listeners fire exactly once.
//
// Histories of complete operations with ONE nested preemption: at a call into a fake (the listener
// map insert inside registration, or the socket close inside the teardown) one other complete
// operation may run, which is exactly the window "between insert and re-check" / "between context
// cancellation and the closed flag".

type zzListener struct {
	registered  bool
	ok          bool
	unsub       func()
	unsubbed    bool
	unsubBefore bool // unsubscribed before the connection closed
	calls       int
	early       bool // ran while the closed flag was not yet observable
}

type zzC20 struct {
	e  *zzConnEnv
	ls [3]zzListener
}

func (s *zzC20) register(i int) {
	l := &s.ls[i]
	l.registered = true // (in progress: a nested operation must not register the same listener again)
	fn := func() {
		l.calls++
		if !s.e.closed.set {
			l.early = true
		}
	}
	if zzverif.Bool() {
		l.unsub, l.ok = s.e.c.OnClosed(fn)
	} else {
		l.unsub, l.ok = s.e.c.ctx.OnDisconnected(fn)
	}
}

func (s *zzC20) unsubscribe(i int) {
	l := &s.ls[i]
	l.unsub()
	l.unsubbed = true
	if !s.e.closed.set {
		l.unsubBefore = true
	}
}

// ZZ_C20_Listeners: K symbolic operations from {register A, register B, unsubscribe, close}; one of
// them may be preempted at its fake boundary by another complete operation.
func ZZ_C20_Listeners() {
	s := &zzC20{e: zzNewConn(false, nil, true)}
	s.e.shaken.Set()
	k := zzverif.Param("K")
	preempted := false
	for step := 0; step < k; step++ {
		op := zzverif.Choice(4)
		// optionally arm one preemption for this operation
		if !preempted && zzverif.Bool() {
			preempted = true
			nested := zzverif.Choice(3)
			run := func() {
				s.e.lsn.hook, s.e.nc.onClose = nil, nil // exactly one preemption
				switch nested {
				case 0:
					s.e.c.close()
				case 1:
					if !s.ls[1].registered {
						s.register(1)
					}
				case 2:
					if s.ls[0].registered && s.ls[0].ok && !s.ls[0].unsubbed {
						s.unsubscribe(0)
					}
				}
			}
			s.e.lsn.hook = func(string) { run() }
			s.e.nc.onClose = run
			zzverif.Reach("preemption-armed")
		}
		switch op {
		case 0, 1:
			zzverif.Assume(!s.ls[op].registered)
			s.register(op)
		case 2:
			i := zzverif.Choice(2)
			zzverif.Assume(s.ls[i].registered && s.ls[i].ok && !s.ls[i].unsubbed)
			s.unsubscribe(i)
		case 3:
			s.e.c.close()
		}
		s.e.lsn.hook, s.e.nc.onClose = nil, nil
	}
	s.e.c.close() // the connection is eventually closed
	zzverif.Assert(s.e.closed.set, "closed")
	for i := range s.ls {
		l := &s.ls[i]
		if !l.registered {
			continue
		}
		zzverif.Assert(!l.early, "listener ran before the closed flag was observable")
		zzverif.Assert(l.calls <= 1, "listener called more than once")
		switch {
		case !l.ok:
			zzverif.Assert(l.calls == 0, "registration reported already-closed but the listener was called")
			zzverif.Reach("refused")
		case l.unsubBefore:
			zzverif.Assert(l.calls == 0, "listener called although unsubscribed before the close")
		case !l.unsubbed:
			zzverif.Assert(l.calls == 1, "registered listener not called exactly once")
			zzverif.Reach("notified")
		}
	}
	zzverif.Reach("done")
}

// ZZ_C20_ListenerIds: three listeners on one connection with unsubscriptions in between: register A,
// register B, unsubscribe a symbolic one of them, register C, optionally unsubscribe a symbolic live one,
// close. Every listener that registered successfully and was not unsubscribed runs exactly once, an
// unsubscribed one never (an unsubscribe must remove its own listener only). Added after seed
// C20-r4m1 (listener ids derived from the current number of listeners collide after an unsubscribe).
func ZZ_C20_ListenerIds() {
	s := &zzC20{e: zzNewConn(false, nil, true)}
	s.e.shaken.Set()
	s.register(0)
	s.register(1)
	if zzverif.Bool() {
		i := zzverif.Choice(2)
		zzverif.Assume(s.ls[i].ok)
		s.unsubscribe(i)
	}
	s.register(2)
	if zzverif.Bool() {
		i := zzverif.Choice(3)
		zzverif.Assume(s.ls[i].ok && !s.ls[i].unsubbed)
		s.unsubscribe(i)
	}
	s.e.c.close()
	zzverif.Assert(s.e.closed.set, "closed")
	for i := range s.ls {
		l := &s.ls[i]
		zzverif.Assert(!l.early, "listener ran before the closed flag was observable")
		if !l.ok {
			// (whether a registration on an open connection may be refused is not this property's
			// business; a refused listener must never run)
			zzverif.Assert(l.calls == 0, "registration reported already-closed but the listener was called")
		} else if l.unsubbed {
			zzverif.Assert(l.calls == 0, "listener called although unsubscribed before the close")
		} else {
			zzverif.Assert(l.calls == 1, "registered listener not called exactly once")
			zzverif.Reach("notified")
		}
	}
	zzverif.Reach("done")
}

// ZZ_C20_HandlerOnce: a channel opened by the peer (single frame or open+close batch) is handed to
// the handler exactly once; its context is the channel's, not cancelled while the channel is open,
// and cancelled when the channel ends from the peer side, the local side, or with the connection.
func ZZ_C20_HandlerOnce() {
	e := zzNewConn(false, nil, true)
	e.shaken.Set()
	id := bin.Bin128{}
	copy(id[0][:], zzverif.Bytes(8))
	batch := zzverif.Bool()
	var msg pmpx.Message
	var err error
	if batch {
		b := pmpx.NewBatchBuilder(ZZ_AcquireBuffer())
		b, _ = b.Open(id, zzverif.Bytes(1), 64)
		b, _ = b.Close(id, nil)
		msg, err = b.Build()
	} else {
		msg, err = pmpx.BuildChannelOpen(pmpx.NewMessageWriterBuffer(ZZ_AcquireBuffer()), id, zzverif.Bytes(1), 64)
	}
	zzverif.Assume(err == nil)
	parsed, _, perr := pmpx.ParseMessage(msg.Unwrap().Raw())
	zzverif.Assume(perr == nil)
	zzverif.Assert(e.c.receiveMessage(parsed, false).OK(), "open-accepted")
	zzverif.Assert(e.handlersRequested() == 1, "exactly-one-handler-start")
	ch := e.workers.pendingChannel()
	zzverif.Assume(ch != nil)
	ctx := ch.unwrap().ctx
	if !batch {
		zzverif.Assert(!ctx.Done(), "handler-context-cancelled-while-channel-open")
	}
	// traffic for the open channel before it ends: nothing, a data frame, a window update
	if !batch {
		var pre pmpx.Message
		var err error
		switch zzverif.Choice(3) {
		case 1:
			pre, err = pmpx.BuildChannelData(pmpx.NewMessageWriterBuffer(ZZ_AcquireBuffer()), id, zzverif.Bytes(1))
		case 2:
			pre, err = pmpx.BuildChannelWindow(pmpx.NewMessageWriterBuffer(ZZ_AcquireBuffer()), id, zzverif.Int32())
		}
		zzverif.Assume(err == nil)
		if pre.Unwrap().Raw() != nil {
			zzverif.Assert(e.c.receiveMessage(pre, false).OK(), "frame-for-open-channel-accepted")
			zzverif.Assert(!ctx.Done(), "handler-context-cancelled-by-ordinary-traffic")
		}
	}
	// how the channel ends
	how := zzverif.Choice(3)
	if batch {
		how = 3
	}
	switch how {
	case 0: // peer closes
		cl, err := pmpx.BuildChannelClose(pmpx.NewMessageWriterBuffer(ZZ_AcquireBuffer()), id, nil)
		zzverif.Assume(err == nil)
		zzverif.Assert(e.c.receiveMessage(cl, false).OK(), "close-accepted")
	case 1: // connection lost
		e.c.close()
	case 2: // a duplicate open is a connection error and starts nothing
		zzverif.Assert(!e.c.receiveMessage(parsed, false).OK(), "duplicate-open-accepted")
		zzverif.Assert(e.handlersRequested() == 1, "duplicate-open-started-second-handler")
		e.c.close()
	}
	zzverif.Assert(ctx.Done(), "handler-context-not-cancelled-when-channel-ended")
	// now the handler runs (late start is legal): exactly one invocation, with that channel
	zzverif.Assert(e.workers.runNext(ch), "handler-runs")
	zzverif.Assert(e.handler.calls == 1 && len(e.handler.chans) == 1, "handler-invoked-exactly-once")
	zzverif.Assert(e.handler.chans[0] == Channel(ch), "handler-got-its-channel")
	zzverif.Assert(e.handlersRequested() == 1, "no-further-handler")
	zzverif.Reach("done")
}

package mpx

import (
	"github.com/basecomplextech/baselibrary/bin"
	"github.com/basecomplextech/baselibrary/status"
	"github.com/basecomplextech/spec/internal/zzverif"
	"github.com/basecomplextech/spec/proto/pmpx"
)

// C18, mpx channel state pool: the inductive recycling step. A channel state with arbitrary field
// values (flags, window, counters, a pending wake-up token, buffered and/or closed receive queue)
// is released; the next channel built from the pool must behave as a fresh one: no flag, window,
// counter, wake-up token, buffered byte or closed queue of the previous owner is visible.
func ZZ_C18_ChannelStateRecycle() {
	conn := &zzConn{}
	q := zzNewQueue()
	// a state as the real constructor builds it, then driven into an arbitrary condition
	s := newChannelState(conn, zzverif.Bool(), bin.Bin128{}, zzverif.Int32())
	s.recvQueue = q
	copy(s.id[0][:], zzverif.Bytes(8))
	s.opened.Store(zzverif.Bool())
	s.closed.Store(zzverif.Bool())
	s.sendWindow.Store(zzverif.Int32())
	s.recvBytes.Store(zzverif.Int32())
	s.sender = newChanSender(s, conn)
	if zzverif.Bool() {
		s.sendWindowWait <- struct{}{} // a wake-up nobody consumed
	}
	if zzverif.Bool() {
		q.Write(zzverif.Bytes(1)) // unread data of the previous owner
	}
	if zzverif.Bool() {
		q.Close()
	}
	// the pool of this run hands the released state straight to the next acquirer
	orig := channelStatePool
	pool := &zzPool[*channelState]{newFn: func() *channelState { return orig.New() }}
	channelStatePool = pool
	defer func() { channelStatePool = orig }()
	releaseChannelState2(s)

	id := bin.Bin128{}
	copy(id[0][:], zzverif.Bytes(8))
	w := zzverif.Int32()
	zzverif.Assume(w >= 1 && w <= zzMaxW)
	conn2 := &zzConn{}
	n := newChannelState(conn2, true, id, w)
	zzverif.Assert(n == s, "pool-hands-out-the-released-state")
	zzverif.Assert(n.id == id && n.conn == conn2 && n.client && n.initWindow == w, "constructor fields")
	zzverif.Assert(!n.opened.Load() && !n.closed.Load(), "recycled channel state keeps open/closed flags")
	zzverif.Assert(n.sendWindow.Load() == w, "recycled channel state keeps a send window")
	zzverif.Assert(n.recvBytes.Load() == 0, "recycled channel state keeps a receive counter")
	zzverif.Assert(len(n.sendWindowWait) == 0, "recycled channel state keeps a wake-up token")
	zzverif.Assert(n.ctx != nil && !n.ctx.Done(), "recycled channel state has a cancelled context")
	zzverif.Assert(!n.recvQueue.Closed(), "recycled channel state has a closed receive queue")
	_, ok, st := n.recvQueue.Read()
	zzverif.Assert(!ok && st.OK(), "recycled channel state delivers the previous owner's data")
	zzverif.Assert(n.sender.ch == n && n.sender.conn == internalConn(conn2), "sender bound to another state")
	zzverif.Reach("done")
}

// ZZ_C18_HandlerPool: the pooled channelHandler of connection 1 runs (handler result OK / error /
// panic); right after the moment the handler object becomes available in the pool, connection 2
// acquires a handler (gets that object). The run of connection 1 must not touch the object any more:
// its error report goes to connection 1's logger, connection 2's logger and handler object are
// untouched.
func ZZ_C18_HandlerPool() {
	e1 := zzNewConn(false, nil, true)
	e2 := zzNewConn(false, nil, true)
	e1.shaken.Set()
	workerPool = &e1.workers.ZZGatedPool
	id := bin.Bin128{{1}, {1}}
	open, err := pmpx.BuildChannelOpen(pmpx.NewMessageWriterBuffer(ZZ_AcquireBuffer()), id, nil, 64)
	zzverif.Assume(err == nil)
	zzverif.Assume(e1.c.receiveMessage(open, false).OK())
	mode := zzverif.Choice(3)
	switch mode {
	case 1:
		e1.handler.ret = status.Status{Code: status.CodeError, Message: "app"}
	case 2:
		e1.handler.panic = true
	}
	orig := channelHandlerPool
	pool := &zzPool[*channelHandler]{newFn: func() *channelHandler { return orig.New() }}
	channelHandlerPool = pool
	defer func() { channelHandlerPool = orig }()
	var h2 *channelHandler
	pool.hook = func() { h2 = newChannelHandler(e2.c, nil) }
	zzverif.Assert(e1.workers.runNext(nil), "handler-runs")
	zzverif.Assert(e1.handler.calls == 1, "handler-invoked-once")
	zzverif.Assert(h2 != nil, "handler object released after its run")
	zzverif.Assert(h2.c == e2.c && h2.ch == nil, "second owner's handler object was modified by the first owner's run")
	zzverif.Assert(e2.logger.errors == 0, "first owner's report landed on the second owner's connection")
	want := 0
	if mode != 0 {
		want = 1
	}
	zzverif.Assert(e1.logger.errors == want, "handler error/panic reported exactly once on its own connection")
	if mode == 1 {
		zzverif.Assert(len(e1.logger.msgs) == 1 && e1.logger.msgs[0] == "Channel error" && e1.logger.sts[0].Message == "app", "handler status reported as it was returned")
	}
	zzverif.Reach("done")
}

package mpx

import (
	"github.com/basecomplextech/baselibrary/async"
	"github.com/basecomplextech/baselibrary/bin"
	"github.com/basecomplextech/baselibrary/status"
	"github.com/basecomplextech/spec/internal/zzverif"
)

// C03 (wire-path integrity kernel): what Receive returns on a channel is the sequence of non-empty
// messages the other side passed to Send / SendAndClose, including payloads carried by the opening
// and closing frames, followed by the end. The whole sequential path runs on real code:
//   channel.Send/SendAndClose -> channelSender -> conn.send -> write queue -> sendMessage ->
//   connWriter -> bytes -> connReader -> ParseMessage -> receiveMessage -> channel -> receive queue
//   -> ReceiveAsync.
// Goroutines, interleavings and ordering under concurrency are outside.

// zzPump moves every queued frame of the sender through the send path and returns the wire bytes.
func zzPump(e *zzConnEnv) []byte {
	for len(e.writeq.msgs) > 0 {
		b := e.writeq.msgs[0]
		e.writeq.msgs = e.writeq.msgs[1:]
		zzverif.Assert(e.c.sendMessage(b).OK(), "send-path-ok")
	}
	zzverif.Assert(e.c.writer.flush().OK(), "flush-ok")
	return e.nc.out.out
}

// zzDeliver feeds wire bytes to a receiving connection until the stream ends.
func zzDeliver(r *zzConnEnv) {
	for {
		msg, st := r.c.reader.readMessage()
		if !st.OK() {
			zzverif.Assert(st.Code == status.CodeEnd, "stream-ends-cleanly")
			return
		}
		zzverif.Assert(r.c.receiveMessage(msg, false).OK(), "dispatch-ok")
	}
}

func zzDrain(ch *channel) (msgs [][]byte, ended bool) {
	for i := 0; i < 8; i++ {
		data, ok, st := ch.ReceiveAsync(zzNewCtx())
		if !st.OK() {
			return msgs, st.Code == status.CodeEnd
		}
		if !ok {
			return msgs, false
		}
		msgs = append(msgs, append([]byte{}, data...))
	}
	return msgs, false
}

// ZZ_C03_Path: the sender performs NS Sends and then (param CLOSE) SendAndClose with a payload of
// CL bytes (0 = no payload); payload lengths PL; contents and the channel id symbolic.
func ZZ_C03_Path() {
	ns, pl, cl, doClose := zzverif.Param("NS"), zzverif.Param("PL"), zzverif.Param("CL"), zzverif.Param("CLOSE") == 1
	snd := zzNewConn(true, nil, true)
	snd.shaken.Set()
	id := bin.Bin128{}
	copy(id[0][:], zzverif.Bytes(8))
	copy(id[1][:], zzverif.Bytes(8))
	zzverif.Assume(id[0][0] != 0xEE) // distinct from the idle channel on the receiving side
	ch := newChannel(snd.c, true, id, 1<<16)
	snd.channels.Set(id, ch)
	// a second, idle channel on the receiving side must stay untouched
	var sent [][]byte
	for i := 0; i < ns; i++ {
		m := zzverif.Bytes(pl)
		zzverif.Assert(ch.Send(zzNewCtx(), m).OK(), "send-ok")
		sent = append(sent, m)
	}
	if doClose {
		m := zzverif.Bytes(cl)
		zzverif.Assert(ch.SendAndClose(zzNewCtx(), m).OK(), "send-and-close-ok")
		if cl > 0 {
			sent = append(sent, m)
		}
	}
	wire := zzPump(snd)

	rcv := zzNewConn(false, append([]byte{}, wire...), true)
	rcv.nc.in.whole = true
	rcv.shaken.Set()
	other := openChannelOther(rcv)
	zzDeliver(rcv)
	if ns == 0 && !doClose {
		zzverif.Assert(rcv.handlersRequested() == 0, "no-frame-no-channel")
		zzverif.Reach("done")
		return
	}
	zzverif.Assert(rcv.handlersRequested() == 1, "exactly-one-channel-opened")
	zzverif.Assert(len(rcv.handler.chans) == 0, "handler-not-yet-run")
	// the accepted channel: still registered unless the close frame arrived
	var rch *channel
	if doClose {
		zzverif.Assert(rcv.channels.Len() == 1, "closed-channel-removed-from-connection")
	} else {
		got, ok := rcv.channels.Get(id)
		zzverif.Assert(ok, "channel-registered-under-its-id")
		rch = got.(*channel)
	}
	if rch == nil {
		rch = rcv.workers.pendingChannel()
	}
	zzverif.Assume(rch != nil)
	msgs, ended := zzDrain(rch)
	zzverif.Assert(len(msgs) == len(sent), "message-count")
	for i := range sent {
		if i < len(msgs) {
			zzverif.Assert(string(msgs[i]) == string(sent[i]), "message-bytes-and-order")
		}
	}
	zzverif.Assert(ended == doClose, "end-observed-exactly-after-close")
	// nothing leaked into the other channel
	om, oend := zzDrain(other)
	zzverif.Assert(len(om) == 0 && !oend, "leak-into-other-channel")
	zzverif.Reach("done")
}

// openChannelOther registers an idle channel with a fixed different id on the receiving side.
func openChannelOther(r *zzConnEnv) *channel {
	id := bin.Bin128{}
	id[0][0], id[1][7] = 0xEE, 0x01
	ch := newChannel(r.c, false, id, 1<<16)
	st := ch.unwrap()
	st.opened.Store(true)
	r.channels.Set(id, ch)
	return ch
}

// zzFullQueue refuses the first `refusals` writes (queue full) although its WriteWait hint fires.
type zzFullQueue struct {
	zzQueue
	refusals int
	ready    chan struct{}
}

func (q *zzFullQueue) Write(msg []byte) (bool, status.Status) {
	if q.closed {
		return false, status.End
	}
	if q.refusals > 0 {
		q.refusals--
		return false, status.OK
	}
	return q.zzQueue.Write(msg)
}
func (q *zzFullQueue) WriteWait(size int) <-chan struct{} { return q.ready }

// ZZ_C03_Backpressure: conn.send against a write queue that is full for an arbitrary number of
// attempts (the wait hint fires each time): when send returns OK the message is in the queue exactly
// once; it is never reported sent without being enqueued.
func ZZ_C03_Backpressure() {
	e := zzNewConn(true, nil, true)
	q := &zzFullQueue{refusals: zzverif.Choice(4), ready: make(chan struct{})}
	close(q.ready)
	q.wait = make(chan struct{}, 1)
	e.c.writeq = q
	id := bin.Bin128{}
	ch := newChannel(e.c, true, id, 1<<16)
	st := ch.Send(async.NoContext(), zzverif.Bytes(2))
	if st.OK() {
		zzverif.Assert(len(q.msgs) == 1, "send-ok-but-message-not-enqueued-exactly-once")
		zzverif.Reach("sent")
	} else {
		zzverif.Assert(len(q.msgs) == 0, "failed-send-enqueued")
	}
}

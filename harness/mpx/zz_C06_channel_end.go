package mpx

import (
	"github.com/basecomplextech/baselibrary/bin"
	"github.com/basecomplextech/baselibrary/alloc/bytequeue"
	"github.com/basecomplextech/baselibrary/status"
	"github.com/basecomplextech/spec/internal/zzverif"
	"github.com/basecomplextech/spec/proto/pmpx"
)

// C06: ending one channel never disturbs the connection or other channels.
//
// Histories of K complete operations on a connection with two channels: A (under test, opened by
// the peer, so it has a handler) and B (sibling). One operation may be preempted at the channel-map
// access (lookup/delete) by another complete operation: that is the real structure of the receive
// path (map Get, then ch.receive) versus the send loop and the user.

type zzC06 struct {
	e        *zzConnEnv
	ida, idb bin.Bin128
	a, b     *channel
	idc      bin.Bin128
	cOpened  bool
	aFreed   bool // user reference of A released (Free / handler exit)
	aHandler bool // A's handler has run
	bSent    [][]byte
	failed   bool
}

func (s *zzC06) frame(kind int, id bin.Bin128, data []byte) pmpx.Message {
	var m pmpx.Message
	var err error
	w := pmpx.NewMessageWriterBuffer(ZZ_AcquireBuffer())
	switch kind {
	case 0:
		m, err = pmpx.BuildChannelData(w, id, data)
	case 1:
		m, err = pmpx.BuildChannelWindow(w, id, 5)
	case 2:
		m, err = pmpx.BuildChannelClose(w, id, data)
	}
	zzverif.Assume(err == nil)
	p, _, perr := pmpx.ParseMessage(m.Unwrap().Raw())
	zzverif.Assume(perr == nil)
	return p
}

func (s *zzC06) deliver(m pmpx.Message) {
	st := s.e.c.receiveMessage(m, false)
	zzverif.Assert(st.OK(), "frame for a (possibly ended) channel failed the connection")
}

// pump lets the send loop handle every queued frame (without writing to the socket).
func (s *zzC06) pump() {
	for len(s.e.writeq.msgs) > 0 {
		b := s.e.writeq.msgs[0]
		s.e.writeq.msgs = s.e.writeq.msgs[1:]
		m, err := pmpx.OpenMessageErr(b)
		zzverif.Assume(err == nil)
		zzverif.Assert(s.e.c.sendHandle(m).OK(), "send loop failed")
	}
}

func (s *zzC06) op(op int, nested bool) {
	switch op {
	case 0:
		s.deliver(s.frame(0, s.ida, zzverif.Bytes(1)))
	case 1:
		s.deliver(s.frame(1, s.ida, nil))
	case 2:
		s.deliver(s.frame(2, s.ida, zzverif.Bytes(zzverif.Choice(2))))
	case 7: // A's user reference is released directly (what the handler epilogue / a client user does)
		zzverif.Assume(!s.aFreed && !s.aHandler)
		s.aFreed = true
		s.aHandler = true // (the parked handler never runs afterwards in this history)
		s.a.Free()
	case 3: // handler of A runs and returns (normal / error / panic): releases the user reference
		zzverif.Assume(!s.aHandler && !s.aFreed && !nested)
		s.aHandler = true
		switch zzverif.Choice(4) {
		case 1:
			s.e.handler.ret = status.Status{Code: status.CodeError}
		case 2:
			s.e.handler.panic = true
		case 3: // the handler frees the channel itself and then returns: the library's own release
			// on the exit path must stay contained (logged), whatever it does
			s.e.handler.free = true
		}
		zzverif.Assert(s.e.workers.runNext(s.a), "handler-runs")
		s.aFreed = true
	case 4:
		s.pump()
	case 5:
		m := zzverif.Bytes(1)
		s.deliver(s.frame(0, s.idb, m))
		s.bSent = append(s.bSent, m)
	case 8: // the peer opens a third channel C (takes a channel state from the pool)
		zzverif.Assume(!s.cOpened)
		s.cOpened = true
		open, err := pmpx.BuildChannelOpen(pmpx.NewMessageWriterBuffer(ZZ_AcquireBuffer()), s.idc, nil, 1<<16)
		zzverif.Assume(err == nil)
		zzverif.Assert(s.e.c.receiveMessage(open, false).OK(), "open of a third channel failed")
	case 6: // A's side ends the channel with SendAndClose (only before the handler released it)
		zzverif.Assume(!s.aFreed)
		st := s.a.SendAndClose(zzNewCtx(), zzverif.Bytes(1))
		zzverif.Assert(st.OK() || st.Code == status.CodeClosed, "send-and-close status")
	}
}

// zzHookQueue wraps a channel's receive queue: one other complete operation may run just before a
// write reaches the queue (between the channel's closed-checks and the write).
type zzHookQueue struct {
	bytequeue.Queue
	hook func()
}

func (q *zzHookQueue) Write(msg []byte) (bool, status.Status) {
	if h := q.hook; h != nil {
		q.hook = nil
		h()
	}
	return q.Queue.Write(msg)
}

func ZZ_C06_History() {
	s := &zzC06{e: zzNewConn(false, nil, true)}
	s.e.shaken.Set()
	s.ida[0][0], s.idb[0][0] = 0xA0, 0xB0
	copy(s.ida[1][:], zzverif.Bytes(8))
	copy(s.idb[1][:], zzverif.Bytes(8))
	for _, id := range []bin.Bin128{s.ida, s.idb} {
		open, err := pmpx.BuildChannelOpen(pmpx.NewMessageWriterBuffer(ZZ_AcquireBuffer()), id, nil, 1<<16)
		zzverif.Assume(err == nil)
		zzverif.Assume(s.e.c.receiveMessage(open, false).OK())
	}
	ca, _ := s.e.channels.Get(s.ida)
	cb, _ := s.e.channels.Get(s.idb)
	s.a, s.b = ca.(*channel), cb.(*channel)

	s.idc[0][0] = 0xC0
	origPool := channelStatePool
	pool := &zzPool[*channelState]{newFn: func() *channelState { return origPool.New() }}
	channelStatePool = pool
	defer func() { channelStatePool = origPool }()
	hq := &zzHookQueue{Queue: s.a.unwrap().recvQueue}
	s.a.unwrap().recvQueue = hq

	k := zzverif.Param("K")
	preempted := false
	for step := 0; step < k; step++ {
		op := zzverif.Choice(8)
		if !preempted && zzverif.Bool() {
			preempted = true
			// what the other actors (user/handler of A, send loop, peer) may do in between
			seqs := [][]int{{7}, {4}, {7, 4}, {6}, {6, 4}, {5}, {2}}
			seq := seqs[zzverif.Choice(len(seqs))]
			run := func() {
				for _, o := range seq {
					s.op(o, true)
				}
			}
			switch zzverif.Choice(3) {
			case 0:
				s.e.channels.hook = func(string) { run() } // at the channel-map access
			case 1:
				hq.hook = run // between A's closed-checks and the write to its receive queue
			case 2:
				// right after a released channel state became available in the state pool: the
				// peer opens another channel, which takes that state
				pool.hook = func() { s.op(8, true) }
			}
			zzverif.Reach("preemption-armed")
		}
		s.op(op, false)
		s.e.channels.hook = nil
		hq.hook = nil
		pool.hook = nil
	}
	if s.cOpened {
		// C is a working channel of its own: registered under its id, receives what is sent to it
		cc, ok := s.e.channels.Get(s.idc)
		zzverif.Assert(ok, "third channel not registered")
		c := cc.(*channel)
		m := zzverif.Bytes(1)
		s.deliver(s.frame(0, s.idc, m))
		zzverif.Assert(c.unwrap() != nil && c.unwrap().id == s.idc, "third channel lost its state")
		data, ok, st := c.ReceiveAsync(zzNewCtx())
		zzverif.Assert(ok && st.OK() && string(data) == string(m), "third channel does not receive its data")
		zzverif.Reach("third-channel")
	}
	// B is undisturbed: exactly what was delivered to it, in order; the connection is still open
	zzverif.Assert(!s.e.closed.set, "connection-closed")
	for i := range s.bSent {
		data, ok, st := s.b.ReceiveAsync(zzNewCtx())
		zzverif.Assert(ok && st.OK() && string(data) == string(s.bSent[i]), "sibling-channel-disturbed")
	}
	_, ok, st := s.b.ReceiveAsync(zzNewCtx())
	zzverif.Assert(!ok && st.OK(), "sibling-channel-got-extra-data")
	zzverif.Reach("done")
}

// zzStuckQueue is a full write queue: writes are refused, the wait hint never fires; when the code
// asks for the hint (it is about to block) one other complete operation runs.
type zzStuckQueue struct {
	zzQueue
	never chan struct{}
	hook  func()
	full  bool
}

func (q *zzStuckQueue) Write(msg []byte) (bool, status.Status) {
	if q.closed {
		return false, status.End
	}
	if q.full {
		return false, status.OK
	}
	return q.zzQueue.Write(msg)
}
func (q *zzStuckQueue) WriteWait(size int) <-chan struct{} {
	if h := q.hook; h != nil {
		q.hook = nil
		h()
	}
	return q.never
}

// ZZ_C06_EndWhileBlocked: the local side ends channel A (Free / SendAndClose / handler return) while
// the connection's write queue is full, and while it waits the peer's close frame (or the
// connection teardown) arrives and cancels the channel context. The ending call returns without
// panicking, the connection survives a peer close, and B is untouched.
func ZZ_C06_EndWhileBlocked() {
	s := &zzC06{e: zzNewConn(false, nil, true)}
	s.e.shaken.Set()
	s.ida[0][0], s.idb[0][0] = 0xA0, 0xB0
	for _, id := range []bin.Bin128{s.ida, s.idb} {
		open, err := pmpx.BuildChannelOpen(pmpx.NewMessageWriterBuffer(ZZ_AcquireBuffer()), id, nil, 1<<16)
		zzverif.Assume(err == nil)
		zzverif.Assume(s.e.c.receiveMessage(open, false).OK())
	}
	ca, _ := s.e.channels.Get(s.ida)
	cb, _ := s.e.channels.Get(s.idb)
	s.a, s.b = ca.(*channel), cb.(*channel)
	q := &zzStuckQueue{never: make(chan struct{}), full: true}
	q.wait = make(chan struct{}, 1)
	s.e.c.writeq = q
	teardown := zzverif.Bool()
	q.hook = func() {
		if teardown {
			s.e.c.close()
		} else {
			s.deliver(s.frame(2, s.ida, nil)) // the peer's close for A
		}
	}
	switch zzverif.Choice(3) {
	case 0:
		s.a.Free()
	case 1:
		st := s.a.SendAndClose(s.a.unwrap().ctx, zzverif.Bytes(1))
		zzverif.Assert(!st.OK(), "send-and-close on a cancelled channel reported ok")
		s.a.Free()
	case 2:
		zzverif.Assert(s.e.workers.runNext(s.a), "handler-runs")
	}
	if !teardown {
		zzverif.Assert(!s.e.closed.set, "connection-closed")
		q.full = false
		m := zzverif.Bytes(1)
		s.deliver(s.frame(0, s.idb, m))
		data, ok, st := s.b.ReceiveAsync(zzNewCtx())
		zzverif.Assert(ok && st.OK() && string(data) == string(m), "sibling-channel-disturbed")
	}
	zzverif.Assert(s.e.logger.errors == 0, "library logged a channel panic/error for a clean end")
	zzverif.Reach("done")
}

// zzTokenQueue is a bounded write queue with the wake-up protocol of the real one: a refused write,
// then WriteWait hands out a channel on which ONE notification arrives when space appears.
type zzTokenQueue struct {
	zzQueue
	full bool
	wake chan struct{}
	hook func()
}

func (q *zzTokenQueue) Write(msg []byte) (bool, status.Status) {
	if q.closed {
		return false, status.End
	}
	if q.full {
		return false, status.OK
	}
	return q.zzQueue.Write(msg)
}
func (q *zzTokenQueue) WriteWait(size int) <-chan struct{} {
	if h := q.hook; h != nil {
		q.hook = nil
		h()
	}
	return q.wake
}

// zzLateCancelCtx is a caller context that is cancelled at the moment the code asks for its status
// (a cancellation may land at any time, also right after the caller was woken up).
type zzLateCancelCtx struct {
	zzCtx
	asked int
}

func (c *zzLateCancelCtx) Status() status.Status {
	c.asked++
	c.Cancel()
	return c.zzCtx.Status()
}

// ZZ_C06_WakeupNotLost: a sender of channel A waits for space in the connection's full write queue;
// space appears and the queue's single wake-up reaches it; A's context is cancelled right after the
// wake-up (its channel has just been ended). Whatever A's call returns, the space must not be lost
// for the other waiters: either A's frame went into the queue, or the wake-up is still there.
func ZZ_C06_WakeupNotLost() {
	e := zzNewConn(false, nil, true)
	e.shaken.Set()
	q := &zzTokenQueue{full: true, wake: make(chan struct{}, 1)}
	q.wait = make(chan struct{}, 1)
	e.c.writeq = q
	q.hook = func() {
		q.full = false      // the send loop drained the queue
		q.wake <- struct{}{} // and its one notification goes to the first waiter
	}
	msg, err := pmpx.BuildChannelData(pmpx.NewMessageWriterBuffer(ZZ_AcquireBuffer()), bin.Bin128{{1}, {1}}, zzverif.Bytes(1))
	zzverif.Assume(err == nil)
	ctx := &zzLateCancelCtx{zzCtx: *zzNewCtx()}
	st := e.c.send(ctx, msg)
	wrote := len(q.msgs) == 1
	zzverif.Assert(wrote || len(q.wake) == 1, "a woken sender left without using the space or passing the wake-up on: other waiters stay parked")
	if wrote {
		zzverif.Assert(st.OK(), "frame enqueued but the call reports failure")
	}
	zzverif.Reach("done")
}

package mpx

import (
	"github.com/basecomplextech/baselibrary/alloc"
	"github.com/basecomplextech/baselibrary/alloc/bytequeue"
	"github.com/basecomplextech/baselibrary/async"
	"github.com/basecomplextech/baselibrary/bin"
	"github.com/basecomplextech/baselibrary/status"
	"github.com/basecomplextech/spec/internal/zzverif"
	"github.com/basecomplextech/spec/proto/pmpx"
)

// Fakes shared by the mpx harnesses. Each fake implements exactly the documented contract of the
// baselibrary interface it replaces; they are part of the claim and listed in the evidence.

// ---- async.Context / async.CancelContext -----------------------------------------------------------

// zzCtx is a cancellable context: Wait() is ready iff cancelled.
type zzCtx struct {
	done bool
	ch   chan struct{}
	st   status.Status
}

func zzNewCtx() *zzCtx { return &zzCtx{ch: make(chan struct{})} }

func (c *zzCtx) Done() bool               { return c.done }
func (c *zzCtx) Wait() <-chan struct{}    { return c.ch }
func (c *zzCtx) Status() status.Status    { return c.st }
func (c *zzCtx) AddCallback(async.ContextCallback)    {}
func (c *zzCtx) RemoveCallback(async.ContextCallback) {}
func (c *zzCtx) Free()                    { c.Cancel() }
func (c *zzCtx) Cancel() {
	if c.done {
		return
	}
	c.done = true
	c.st = status.Cancelled
	close(c.ch)
}

// zzWouldBlock is the status by which the probing context of a kernel reports "this call would
// have blocked here".
var zzWouldBlock = status.Status{Code: "zz_would_block"}

// zzProbeCtx is passed to a blocking call in place of the caller's context. Its Wait() channel is
// ready exactly when `blocked()` says nothing else can make progress, so a select that would block
// forever in a sequential run returns zzWouldBlock instead (and exactly one case is ready at any
// time, which keeps native replays deterministic).
type zzProbeCtx struct {
	zzCtx
	closed  chan struct{}
	never   chan struct{}
	blocked func() bool
}

func zzNewProbe(blocked func() bool) *zzProbeCtx {
	p := &zzProbeCtx{closed: make(chan struct{}), never: make(chan struct{}), blocked: blocked}
	close(p.closed)
	return p
}

func (p *zzProbeCtx) Wait() <-chan struct{} {
	if p.blocked() {
		return p.closed
	}
	return p.never
}
func (p *zzProbeCtx) Status() status.Status { return zzWouldBlock }

// ---- bytequeue.Queue --------------------------------------------------------------------------------

// zzQueue is an unbounded FIFO of messages: Write appends (fails once closed), Read returns the
// next message or (nil,false,OK) when empty and open, or (nil,false,End) when empty and closed.
type zzQueue struct {
	msgs   [][]byte
	closed bool
	resets int
	wait   chan struct{}
}

func zzNewQueue() *zzQueue { return &zzQueue{wait: make(chan struct{}, 1)} }

// ZZ_NewQueue overrides bytequeue.New inside the engine (the real queue sits on the alloc heap).
func ZZ_NewQueue() bytequeue.Queue { return zzNewQueue() }

func (q *zzQueue) Closed() bool { return q.closed }
func (q *zzQueue) Clear()       { q.msgs = nil }
func (q *zzQueue) Close()       { q.closed = true }
func (q *zzQueue) Read() ([]byte, bool, status.Status) {
	if len(q.msgs) == 0 {
		if q.closed {
			return nil, false, status.End
		}
		return nil, false, status.OK
	}
	m := q.msgs[0]
	q.msgs = q.msgs[1:]
	return m, true, status.OK
}
func (q *zzQueue) ReadWait() <-chan struct{} { return q.wait }
func (q *zzQueue) Write(msg []byte) (bool, status.Status) {
	if q.closed {
		return false, status.End
	}
	c := make([]byte, len(msg))
	copy(c, msg)
	q.msgs = append(q.msgs, c)
	return true, status.OK
}
func (q *zzQueue) WriteWait(size int) <-chan struct{} { return q.wait }
func (q *zzQueue) Reset()                             { q.msgs, q.closed = nil, false; q.resets++ }
func (q *zzQueue) Free()                              {}

// zzVirtQueue holds virtual messages (lengths only): used where sizes must range over the full
// int32 domain and contents are irrelevant.
type zzVirtQueue struct {
	zzQueue
	sizes []int
}

func (q *zzVirtQueue) Read() ([]byte, bool, status.Status) {
	if len(q.sizes) == 0 {
		if q.closed {
			return nil, false, status.End
		}
		return nil, false, status.OK
	}
	n := q.sizes[0]
	q.sizes = q.sizes[1:]
	return zzverif.Virtual(n), true, status.OK
}

// ---- internalConn -----------------------------------------------------------------------------------

// zzConn records the frames handed to the connection's write path.
type zzConn struct {
	Conn   // not used by the kernels (nil)
	frames [][]byte
	failAt int // send number (1-based) at which send starts returning a closed status; 0 = never
	sends  int
}

func (c *zzConn) run() status.Status { return status.OK }
func (c *zzConn) send(ctx async.Context, msg pmpx.Message) status.Status {
	c.sends++
	if c.failAt != 0 && c.sends >= c.failAt {
		return statusConnClosed
	}
	raw := msg.Unwrap().Raw()
	cp := make([]byte, len(raw))
	copy(cp, raw)
	c.frames = append(c.frames, cp)
	return status.OK
}

// ---- alloc.Buffer (override of alloc.AcquireBuffer / alloc.NewBuffer inside the engine) -------------

// zzAllocBuf is a contiguous implementation of the documented buffer contract. The real
// alloc.Buffer is a pooled multi-block buffer over a recycling heap; inside the engine calls to
// alloc.AcquireBuffer are redirected here (natively the real one runs, and the per-run translator
// validation compares the observable results).
type zzAllocBuf struct{ b []byte }

func ZZ_AcquireBuffer() alloc.Buffer { return &zzAllocBuf{} }

func (z *zzAllocBuf) Len() int      { return len(z.b) }
func (z *zzAllocBuf) Bytes() []byte { return z.b }
func (z *zzAllocBuf) Grow(n int) []byte {
	// frames larger than 4 KiB (and negative sizes on 32-bit wrap) are outside the kernels' claim
	zzverif.Assume(n >= 0 && n <= 4096)
	ln := len(z.b)
	if cap(z.b)-ln < n {
		nb := make([]byte, ln, 2*cap(z.b)+n+32)
		copy(nb, z.b)
		z.b = nb
	}
	z.b = z.b[:ln+n]
	p := z.b[ln : ln+n]
	for i := range p {
		p[i] = 0xa5 // recycled memory is not zeroed
	}
	return p
}
func (z *zzAllocBuf) Write(p []byte) (int, error) { return copy(z.Grow(len(p)), p), nil }
func (z *zzAllocBuf) WriteByte(v byte) error      { z.Grow(1)[0] = v; return nil }
func (z *zzAllocBuf) WriteRune(r rune) (int, error) {
	zzverif.Unsupported("WriteRune")
	return 0, nil
}
func (z *zzAllocBuf) WriteString(s string) (int, error) { return copy(z.Grow(len(s)), s), nil }
func (z *zzAllocBuf) Reset()                            { z.b = z.b[:0] }
func (z *zzAllocBuf) Rem() int                          { return cap(z.b) - len(z.b) }
func (z *zzAllocBuf) Free()                             {}

// zzFlag implements async.MutFlag.
type zzFlag struct {
	set bool
	ch  chan struct{}
}

func zzNewFlag(set bool) *zzFlag      { return &zzFlag{set: set, ch: make(chan struct{})} }
func (f *zzFlag) IsSet() bool         { return f.set }
func (f *zzFlag) Wait() <-chan struct{} { return f.ch }
func (f *zzFlag) Set()                { f.set = true }
func (f *zzFlag) Unset()              { f.set = false }


// ---- a channel state built directly (shared by C07 and C09) -----------------------------------------------

const zzMaxW = 1 << 30

func zzC07state(w int32) (*channelState, *zzConn, *zzVirtQueue) {
	conn := &zzConn{}
	q := &zzVirtQueue{}
	q.wait = make(chan struct{}, 1)
	// built by the real constructor (so that anything it derives from its arguments is set), then
	// given the length-only receive queue
	s := newChannelState(conn, true, bin.Bin128{}, w)
	s.opened.Store(true)
	s.recvQueue = q
	return s, conn, q
}


package model

import (
	"github.com/basecomplextech/spec/internal/lang/syntax"
	"github.com/basecomplextech/spec/internal/zzverif"
)

// C14, structural rules at the syntax-tree level: a package of one file with a fixed skeleton
//   enum E; message M {f1 T1 1; f2 T2 2}; message N; struct S {g T3}; struct S2 {h T4};
//   service Svc { call(N) (<-C1, C2->) N }
// whose type positions T1..T4, C1, C2 are symbolic choices over {int32, string, E, M, N, S, S2, Svc,
// an undeclared name, any, message, bytes, a subservice}, each optionally a list (fields only), and whose second field name may repeat
// the first. The real model pipeline (parse, resolve, compile, validate) decides; if it ACCEPTS, no
// rule of the language named by the property may be broken (the generator would emit code the Go
// compiler rejects): unknown or service-typed field and element types, self-containing structs,
// non-message channel types, duplicate field names.

const (
	zzTInt32 = iota
	zzTString
	zzTEnum
	zzTMsgM
	zzTMsgN
	zzTStructS
	zzTStructS2
	zzTService
	zzTUnknown
	zzTAny
	zzTAnyMessage
	zzTBytes
	zzTSubservice
	zzTKinds
)

type zzTypeChoice struct {
	base int
	list bool
}

func zzSyntaxType(base int) *syntax.Type {
	switch base {
	case zzTInt32:
		return &syntax.Type{Kind: syntax.KindInt32}
	case zzTString:
		return &syntax.Type{Kind: syntax.KindString}
	case zzTAny:
		return &syntax.Type{Kind: syntax.KindAny}
	case zzTAnyMessage:
		return &syntax.Type{Kind: syntax.KindAnyMessage}
	case zzTBytes:
		return &syntax.Type{Kind: syntax.KindBytes}
	}
	name := map[int]string{zzTEnum: "E", zzTMsgM: "M", zzTMsgN: "N", zzTStructS: "S", zzTStructS2: "S2", zzTService: "Svc", zzTUnknown: "Nowhere", zzTSubservice: "Sub"}[base]
	return &syntax.Type{Kind: syntax.KindReference, Name: name}
}

func zzDrawType(allowList bool) (*syntax.Type, zzTypeChoice) {
	c := zzTypeChoice{base: zzverif.Choice(zzTKinds)}
	t := zzSyntaxType(c.base)
	if allowList && zzverif.Bool() {
		c.list = true
		t = &syntax.Type{Kind: syntax.KindList, Element: t}
	}
	return t, c
}

func ZZ_C14_Schema() {
	part := zzverif.Param("PART") // which positions vary: 0 message fields, 1 struct fields, 2 channel types
	def1 := func() (*syntax.Type, zzTypeChoice) {
		return zzSyntaxType(zzTInt32), zzTypeChoice{base: zzTInt32}
	}
	t1, c1 := def1()
	t2, c2 := def1()
	t3, c3 := def1()
	t4, c4 := def1()
	ch1, cc1 := zzSyntaxType(zzTMsgN), zzTypeChoice{base: zzTMsgN}
	if part == 4 {
		ch1 = zzSyntaxType(zzTMsgM)
		cc1 = zzTypeChoice{base: zzTMsgM}
	}
	ch2, cc2 := zzSyntaxType(zzTMsgM), zzTypeChoice{base: zzTMsgM}
	name2 := "f2"
	// PART 3: the method signature: input / output type positions, oneway marker, second method's name
	var in, out interface{} = zzSyntaxType(zzTMsgN), zzSyntaxType(zzTMsgN)
	cin, cout := zzTypeChoice{base: zzTMsgN}, zzTypeChoice{base: zzTMsgN}
	hasIn, hasOut, oneway, withChannel := true, true, false, true
	method2 := "other"
	// PART 4: the file's import and the name of the second message
	imp, nameN := 0, "N"
	// PART 5: names of a second service and its method with inline input fields: the request
	// message generated for it is named <Service><Method>Request and must not clash with the one
	// generated for Svc2.ab_c (Svc2AbCRequest) or with a declared message
	svc2, meth2 := "Other", "d"
	switch part {
	case 5:
		if zzverif.Bool() {
			svc2 = "Svc2Ab"
		}
		if zzverif.Bool() {
			meth2 = "c"
		}
		if zzverif.Bool() {
			nameN = "OtherDRequest" // a declared message with the name of a generated one
		}
	}
	switch part {
	case 3:
		var ti, to *syntax.Type
		ti, cin = zzDrawType(false)
		to, cout = zzDrawType(false)
		in, out = ti, to
		if hasIn = zzverif.Bool(); !hasIn {
			in = nil
		}
		if hasOut = zzverif.Bool(); !hasOut {
			out = nil
		}
		oneway = zzverif.Bool()
		withChannel = zzverif.Bool()
		if zzverif.Bool() {
			method2 = "call"
		}
	case 4:
		imp = zzverif.Choice(3) // none, the package itself (circular), a package that does not exist
		if zzverif.Bool() {
			nameN = "M" // duplicate definition name (nothing refers to N in this part)
		}
	}
	switch part {
	case 0:
		t1, c1 = zzDrawType(true)
		t2, c2 = zzDrawType(true)
		if zzverif.Bool() {
			name2 = "f1"
		}
	case 1:
		t3, c3 = zzDrawType(true)
		t4, c4 = zzDrawType(true)
	case 2:
		ch1, cc1 = zzDrawType(false)
		ch2, cc2 = zzDrawType(false)
	}
	var channel *syntax.MethodChannel
	if withChannel {
		channel = &syntax.MethodChannel{In: ch1, Out: ch2}
	}
	refN := zzTMsgN
	if part == 4 {
		refN = zzTMsgM
	}
	var imports []*syntax.Import
	switch imp {
	case 1:
		imports = []*syntax.Import{{ID: "pkg"}}
	case 2:
		imports = []*syntax.Import{{ID: "nowhere/at/all"}}
	}
	inlineT, inlineC := zzSyntaxType(zzTInt32), zzTypeChoice{base: zzTInt32}
	if part == 5 && zzverif.Bool() {
		inlineT, inlineC = zzDrawType(true) // the type of an inline argument field is a field type like any other
	}
	inline := func() syntax.Fields {
		return syntax.Fields{{Name: "x", Tag: 1, Type: inlineT}}
	}
	if part == 5 {
		refN = zzTMsgM
		ch1, cc1 = zzSyntaxType(zzTMsgM), zzTypeChoice{base: zzTMsgM}
		in, out = zzSyntaxType(zzTMsgM), zzSyntaxType(zzTMsgM)
		cin, cout = zzTypeChoice{base: zzTMsgM}, zzTypeChoice{base: zzTMsgM}
	}
	file := &syntax.File{
		Path:    "a.spec",
		Imports: imports,
		Definitions: []*syntax.Definition{
			{Type: syntax.DefinitionEnum, Name: "E", Enum: &syntax.Enum{Values: []*syntax.EnumValue{{Name: "Zero", Value: 0}, {Name: "One", Value: 1}}}},
			{Type: syntax.DefinitionMessage, Name: "M", Message: &syntax.Message{Fields: []*syntax.Field{
				{Name: "f1", Tag: 1, Type: t1}, {Name: name2, Tag: 2, Type: t2}}}},
			{Type: syntax.DefinitionMessage, Name: nameN, Message: &syntax.Message{Fields: []*syntax.Field{
				{Name: "a", Tag: 1, Type: zzSyntaxType(zzTInt32)}}}},
			{Type: syntax.DefinitionStruct, Name: "S", Struct: &syntax.Struct{Fields: []*syntax.StructField{
				{Name: "x", Type: zzSyntaxType(zzTInt32)}, {Name: "g", Type: t3}}}},
			{Type: syntax.DefinitionStruct, Name: "S2", Struct: &syntax.Struct{Fields: []*syntax.StructField{
				{Name: "h", Type: t4}}}},
			{Type: syntax.DefinitionService, Name: "Svc", Service: &syntax.Service{Methods: []*syntax.Method{
				{Name: "call", Input: in, Output: out, Oneway: oneway, Channel: channel},
				{Name: method2, Input: zzSyntaxType(refN), Output: zzSyntaxType(refN)}}}},
			{Type: syntax.DefinitionService, Name: "Sub", Service: &syntax.Service{Sub: true, Methods: []*syntax.Method{
				{Name: "ping", Input: zzSyntaxType(zzTMsgM), Output: zzSyntaxType(zzTMsgM)}}}},
		},
	}
	if part == 5 {
		file.Definitions = append(file.Definitions,
			&syntax.Definition{Type: syntax.DefinitionService, Name: "Svc2", Service: &syntax.Service{Methods: []*syntax.Method{
				{Name: "ab_c", Input: inline()}}}},
			&syntax.Definition{Type: syntax.DefinitionService, Name: svc2, Service: &syntax.Service{Methods: []*syntax.Method{
				{Name: meth2, Input: inline()}}}})
	}
	files := []*syntax.File{file}
	if part == 1 && zzverif.Bool() {
		// the second struct lives in another file of the same package
		var keep []*syntax.Definition
		file2 := &syntax.File{Path: "b.spec"}
		for _, d := range file.Definitions {
			if d.Name == "S2" {
				file2.Definitions = append(file2.Definitions, d)
			} else {
				keep = append(keep, d)
			}
		}
		file.Definitions = keep
		files = append(files, file2)
		zzverif.Reach("two-files")
	}
	x := NewContext(nil, nil)
	_, err := x.compileFiles("pkg", "pkg", files)
	if err != nil {
		zzverif.Reach("rejected")
		return
	}
	zzverif.Reach("accepted")
	for _, c := range []zzTypeChoice{c1, c2, c3, c4, inlineC} {
		zzverif.Assert(c.base != zzTUnknown, "unknown field or element type accepted")
		zzverif.Assert(c.base != zzTService && c.base != zzTSubservice, "service-typed field or list element accepted")
	}
	zzverif.Assert(name2 != "f1", "duplicate field name accepted")
	// structs: value types or other structs only, never containing themselves
	for _, c := range []zzTypeChoice{c3, c4} {
		zzverif.Assert(!c.list && c.base != zzTMsgM && c.base != zzTMsgN, "non-value struct field accepted")
		zzverif.Assert(c.base != zzTAny && c.base != zzTAnyMessage, "dynamic (any / message) struct field accepted")
	}
	zzverif.Assert(c3.base != zzTStructS, "struct containing itself accepted")
	zzverif.Assert(c4.base != zzTStructS2, "struct containing itself accepted")
	zzverif.Assert(!(c3.base == zzTStructS2 && c4.base == zzTStructS), "mutually containing structs accepted")
	if withChannel {
		for _, c := range []zzTypeChoice{cc1, cc2} {
			zzverif.Assert(c.base == zzTMsgM || c.base == zzTMsgN, "non-message channel type accepted")
		}
	}
	// method signatures
	isMsg := func(c zzTypeChoice) bool { return c.base == zzTMsgM || c.base == zzTMsgN }
	if hasIn {
		zzverif.Assert(isMsg(cin), "method input that is not a message accepted")
	}
	if hasOut {
		zzverif.Assert(isMsg(cout) || cout.base == zzTSubservice, "method output that is neither a message nor a subservice accepted")
	}
	if oneway {
		zzverif.Assert(!hasOut && !withChannel, "oneway method with a response, subservice or channel accepted")
	}
	if hasOut && cout.base == zzTSubservice {
		zzverif.Assert(!withChannel, "method returning a subservice with a channel accepted")
	}
	zzverif.Assert(method2 != "call", "duplicate method name accepted")
	// imports and definition names
	zzverif.Assert(imp == 0, "circular or missing import accepted")
	zzverif.Assert(nameN != "M", "duplicate definition name accepted")
	if part == 5 {
		// Svc2.ab_c generates Svc2AbCRequest; <svc2>.<meth2> generates <svc2><Meth2>Request
		zzverif.Assert(!(svc2 == "Svc2Ab" && meth2 == "c"), "two generated request messages with one name accepted")
		zzverif.Assert(!(nameN == "OtherDRequest" && svc2 == "Other" && meth2 == "d"), "declared message with the name of a generated request accepted")
	}
}

package model

import (
	"math"

	"github.com/basecomplextech/spec/internal/lang/syntax"
	"github.com/basecomplextech/spec/internal/zzverif"
)

// C14 (numeric admission rules only): a schema whose field tag or enum number is zero / out of range
// / duplicated must be rejected by the model, because the generator emits the tag as a uint16
// constant and the enum number as an int32 constant (anything else does not compile).

func zzField(name string, tag int) *syntax.Field {
	return &syntax.Field{Name: name, Tag: tag, Type: &syntax.Type{Kind: syntax.KindInt32}}
}

// ZZ_C14_Tags: N fields with arbitrary (full int range) tags through the real newFields.
func ZZ_C14_Tags() {
	n := zzverif.Param("N")
	names := []string{"a", "b", "c"}
	tags := make([]int, n)
	var pf []*syntax.Field
	for i := 0; i < n; i++ {
		tags[i] = zzverif.Int()
		pf = append(pf, zzField(names[i], tags[i]))
	}
	fields, err := newFields(pf)
	if err == nil {
		zzverif.Assert(len(fields.List) == n, "accepted-field-count")
		for i := 0; i < n; i++ {
			zzverif.Assert(tags[i] != 0, "zero-tag-accepted")
			zzverif.Assert(tags[i] >= 1 && tags[i] <= math.MaxUint16, "out-of-range-tag-accepted")
			for j := i + 1; j < n; j++ {
				zzverif.Assert(tags[i] != tags[j], "duplicate-tag-accepted")
			}
			zzverif.Assert(fields.GetByTag(tags[i]) == fields.List[i], "field-registered-under-its-tag")
		}
		zzverif.Reach("accepted")
	} else {
		ok := true
		for i := 0; i < n; i++ {
			if tags[i] < 1 || tags[i] > math.MaxUint16 {
				ok = false
			}
			for j := i + 1; j < n; j++ {
				if tags[i] == tags[j] {
					ok = false
				}
			}
		}
		zzverif.Assert(!ok, "valid-tags-rejected")
		zzverif.Reach("rejected")
	}
}

// ZZ_C14_EnumNumbers: N enum values with arbitrary numbers through the real parseEnum.
func ZZ_C14_EnumNumbers() {
	n := zzverif.Param("N")
	names := []string{"A", "B", "C"}
	nums := make([]int, n)
	pe := &syntax.Enum{}
	for i := 0; i < n; i++ {
		nums[i] = zzverif.Int()
		pe.Values = append(pe.Values, &syntax.EnumValue{Name: names[i], Value: nums[i]})
	}
	e, err := parseEnum(nil, nil, &Definition{Name: "E"}, pe)
	hasZero, dup, oob := false, false, false
	for i := 0; i < n; i++ {
		if nums[i] == 0 {
			hasZero = true
		}
		if nums[i] < math.MinInt32 || nums[i] > math.MaxInt32 {
			oob = true
		}
		for j := i + 1; j < n; j++ {
			if nums[i] == nums[j] {
				dup = true
			}
		}
	}
	if err == nil {
		zzverif.Assert(len(e.Values) == n, "accepted-value-count")
		zzverif.Assert(hasZero, "enum-without-zero-value-accepted")
		zzverif.Assert(!dup, "duplicate-enum-number-accepted")
		zzverif.Assert(!oob, "enum-number-outside-int32-accepted")
		zzverif.Reach("accepted")
	} else {
		zzverif.Assert(!hasZero || dup || oob, "valid-enum-rejected")
		zzverif.Reach("rejected")
	}
}

package writer

import (
	"github.com/basecomplextech/baselibrary/bin"
	"github.com/basecomplextech/spec/internal/types"
	"github.com/basecomplextech/spec/internal/zzverif"
)

// Shared by the writer-side harnesses (C01, C08, C12, C16, C18): symbolic scalar values of a
// symbolic kind, a sink interface implemented by FieldWriter / ListWriter / ValueWriter, and the
// read-back oracle.

const (
	zzInt32 = iota
	zzString
	zzBool
	zzUint64
	zzBytes
	zzFloat64
	zzByte
	zzInt16
	zzInt64
	zzUint16
	zzUint32
	zzFloat32
	zzBin64
	zzBin128
	zzBin256
	zzKinds
)

type zzSink interface {
	Bool(v bool) error
	Byte(v byte) error
	Int16(v int16) error
	Int32(v int32) error
	Int64(v int64) error
	Uint16(v uint16) error
	Uint32(v uint32) error
	Uint64(v uint64) error
	Float32(v float32) error
	Float64(v float64) error
	Bin64(v bin.Bin64) error
	Bin128(v bin.Bin128) error
	Bin256(v bin.Bin256) error
	Bytes(v []byte) error
	String(v string) error
}

type zzVal struct {
	kind int
	b    bool
	u8   byte
	i16  int16
	i32  int32
	i64  int64
	u16  uint16
	u32  uint32
	u64  uint64
	f32  float32
	f64  float64
	b64  bin.Bin64
	b128 bin.Bin128
	b256 bin.Bin256
	raw  []byte
	str  string
}

// zzDrawVal draws a value of an arbitrary kind among the first `kinds` kinds.
func zzDrawVal(kinds int) zzVal {
	v := zzVal{kind: zzverif.Choice(kinds)}
	switch v.kind {
	case zzBool:
		v.b = zzverif.Bool()
	case zzByte:
		v.u8 = zzverif.Byte()
	case zzInt16:
		v.i16 = zzverif.Int16()
	case zzInt32:
		v.i32 = zzverif.Int32()
	case zzInt64:
		v.i64 = zzverif.Int64()
	case zzUint16:
		v.u16 = zzverif.Uint16()
	case zzUint32:
		v.u32 = zzverif.Uint32()
	case zzUint64:
		v.u64 = zzverif.Uint64()
	case zzFloat32:
		v.f32 = zzverif.Float32()
	case zzFloat64:
		v.f64 = zzverif.Float64()
	case zzBin64:
		copy(v.b64[:], zzverif.Bytes(8))
	case zzBin128:
		copy(v.b128[0][:], zzverif.Bytes(8))
		copy(v.b128[1][:], zzverif.Bytes(8))
	case zzBin256:
		copy(v.b256[0][:], zzverif.Bytes(8))
		copy(v.b256[1][:], zzverif.Bytes(8))
		copy(v.b256[2][:], zzverif.Bytes(8))
		copy(v.b256[3][:], zzverif.Bytes(8))
	case zzBytes:
		v.raw = zzverif.Bytes(zzverif.Choice(3))
	case zzString:
		v.str = zzverif.String(zzverif.Choice(3))
	}
	return v
}

func (v zzVal) write(s zzSink) error {
	switch v.kind {
	case zzBool:
		return s.Bool(v.b)
	case zzByte:
		return s.Byte(v.u8)
	case zzInt16:
		return s.Int16(v.i16)
	case zzInt32:
		return s.Int32(v.i32)
	case zzInt64:
		return s.Int64(v.i64)
	case zzUint16:
		return s.Uint16(v.u16)
	case zzUint32:
		return s.Uint32(v.u32)
	case zzUint64:
		return s.Uint64(v.u64)
	case zzFloat32:
		return s.Float32(v.f32)
	case zzFloat64:
		return s.Float64(v.f64)
	case zzBin64:
		return s.Bin64(v.b64)
	case zzBin128:
		return s.Bin128(v.b128)
	case zzBin256:
		return s.Bin256(v.b256)
	case zzBytes:
		return s.Bytes(v.raw)
	case zzString:
		return s.String(v.str)
	}
	zzverif.Unsupported("bad kind")
	return nil
}

// reads reports whether the raw value x decodes, through the typed accessor of v's kind, to v.
func (v zzVal) reads(x types.Value) bool {
	switch v.kind {
	case zzBool:
		r, err := x.BoolErr()
		return err == nil && r == v.b
	case zzByte:
		r, err := x.ByteErr()
		return err == nil && r == v.u8
	case zzInt16:
		r, err := x.Int16Err()
		return err == nil && r == v.i16
	case zzInt32:
		r, err := x.Int32Err()
		return err == nil && r == v.i32
	case zzInt64:
		r, err := x.Int64Err()
		return err == nil && r == v.i64
	case zzUint16:
		r, err := x.Uint16Err()
		return err == nil && r == v.u16
	case zzUint32:
		r, err := x.Uint32Err()
		return err == nil && r == v.u32
	case zzUint64:
		r, err := x.Uint64Err()
		return err == nil && r == v.u64
	case zzFloat32:
		r, err := x.Float32Err()
		return err == nil && (r == v.f32 || (r != r && v.f32 != v.f32))
	case zzFloat64:
		r, err := x.Float64Err()
		return err == nil && (r == v.f64 || (r != r && v.f64 != v.f64))
	case zzBin64:
		r, err := x.Bin64Err()
		return err == nil && r == v.b64
	case zzBin128:
		r, err := x.Bin128Err()
		return err == nil && r == v.b128
	case zzBin256:
		r, err := x.Bin256Err()
		return err == nil && r == v.b256
	case zzBytes:
		r, err := x.BytesErr()
		return err == nil && string(r) == string(v.raw)
	case zzString:
		r, err := x.StringErr()
		return err == nil && string(r) == v.str
	}
	return false
}

// zzAbsentReadsZero: an absent tag reads as absent / zero through every accessor.
func zzAbsentReadsZero(m types.Message, tag uint16) bool {
	if m.HasField(tag) || m.Field(tag) != nil || m.FieldRaw(tag) != nil {
		return false
	}
	if m.Bool(tag) || m.Byte(tag) != 0 || m.Int16(tag) != 0 || m.Int32(tag) != 0 || m.Int64(tag) != 0 {
		return false
	}
	if m.Uint16(tag) != 0 || m.Uint32(tag) != 0 || m.Uint64(tag) != 0 || m.Float32(tag) != 0 || m.Float64(tag) != 0 {
		return false
	}
	if len(m.Bytes(tag)) != 0 || len(m.String(tag)) != 0 {
		return false
	}
	if m.List(tag).Len() != 0 || m.Message(tag).Fields() != 0 {
		return false
	}
	return m.Bin64(tag) == bin.Bin64{} && m.Bin128(tag) == bin.Bin128{} && m.Bin256(tag) == bin.Bin256{}
}

func zzDistinct(tags ...uint16) {
	for i := range tags {
		for j := i + 1; j < len(tags); j++ {
			zzverif.Assume(tags[i] != tags[j])
		}
	}
}


package writer

import (
	"github.com/basecomplextech/baselibrary/buffer"
	"github.com/basecomplextech/spec/internal/format"
	"github.com/basecomplextech/spec/internal/types"
	"github.com/basecomplextech/spec/internal/zzverif"
)

// C18 (writer pools): a recycled writer / writer state never carries state from its previous use,
// and an object in use by one owner is never handed to another.
//
// sync.Pool is modelled by the engine as a LIFO stack that never drops objects (the adversarial
// case for reuse); natively the real sync.Pool is used (single goroutine: Put then Get returns the
// same object unless a GC intervenes).

// ZZ_C18_ResetState: inductive recycling step. A writer state whose every field holds an arbitrary
// value goes through the state pool; what comes back equals a freshly constructed state in every
// observable field.
func ZZ_C18_ResetState() {
	s := newWriterState()
	// arbitrary previous use
	s.buf = buffer.New()
	s.releaseState = zzverif.Bool()
	s.releaseWriter = zzverif.Bool()
	ns, ne, nf := zzverif.Choice(4), zzverif.Choice(4), zzverif.Choice(4)
	for i := 0; i < ns; i++ {
		s.stack.pushList(zzverif.Int(), zzverif.Int())
	}
	for i := 0; i < ne; i++ {
		s.elements.push(format.ListElement{Offset: zzverif.Uint32()})
	}
	for i := 0; i < nf; i++ {
		s.fields.insert(0, format.MessageField{Tag: zzverif.Uint16(), Offset: zzverif.Uint32()})
	}
	// recycle through the pool: this is the boundary between two uses
	releaseWriterState(s)
	r := acquireWriterState()
	zzverif.Assume(r == s) // (natively the pool may hand out a different, fresh object)
	f := newWriterState()
	zzverif.Assert(r.buf == nil && f.buf == nil, "recycled-buf")
	zzverif.Assert(r.releaseState == f.releaseState, "recycled-releaseState")
	zzverif.Assert(r.releaseWriter == f.releaseWriter, "recycled-releaseWriter")
	zzverif.Assert(len(r.stack.stack) == 0 && len(r.elements.stack) == 0 && len(r.fields.stack) == 0, "recycled-tables-empty")
	zzverif.Reach("done")
}

type zzC18slot struct {
	w      *writer
	pooled bool
	live   bool // the owner still holds it (may call methods / must Free it)
	failed bool
	built  bool
}

func zzC18noAlias(slots []zzC18slot) {
	for i := range slots {
		if !slots[i].live {
			continue
		}
		for j := i + 1; j < len(slots); j++ {
			if !slots[j].live {
				continue
			}
			zzverif.Assert(slots[i].w != slots[j].w, "two live owners hold the same writer")
			if slots[i].w.writerState != nil && slots[j].w.writerState != nil {
				zzverif.Assert(slots[i].w.writerState != slots[j].w.writerState, "two live owners share one writer state")
			}
		}
	}
}

// ZZ_C18_PoolHistory: K symbolic operations over 3 owner slots sharing the two writer pools.
func ZZ_C18_PoolHistory() {
	slots := make([]zzC18slot, 3)
	k := zzverif.Param("K")
	for step := 0; step < k; step++ {
		j := zzverif.Choice(3)
		s := &slots[j]
		switch zzverif.Choice(6) {
		case 0: // explicitly owned writer
			zzverif.Assume(!s.live)
			*s = zzC18slot{w: newWriter(nil, false), live: true}
		case 1: // pooled (auto-released) writer, as NewMessageWriterBuffer does
			zzverif.Assume(!s.live)
			*s = zzC18slot{w: acquireWriter(buffer.New()), pooled: true, live: true}
		case 2: // the owner's program fails midway (misuse)
			zzverif.Assume(s.live && !s.failed && !s.built)
			s.w.Value().Bool(true)
			s.w.Value().Bool(true)
			zzverif.Assert(s.w.Err() != nil, "misuse must fail")
			s.failed = true // the owner still holds the writer and may keep calling it
		case 3: // the owner writes a root message and builds it
			zzverif.Assume(s.live && !s.failed && !s.built)
			v := zzverif.Byte()
			m := s.w.Message()
			zzverif.Assert(m.Field(4).Byte(v) == nil, "write on own writer failed")
			b, err := m.Build()
			zzverif.Assert(err == nil, "build on own writer failed")
			pm, _, perr := types.ParseMessage(b)
			zzverif.Assert(perr == nil && pm.Byte(4) == v && pm.Fields() == 1, "own result corrupted")
			s.built = true
			if s.pooled {
				s.live = false // auto-released on root end: the owner must not touch it again
			}
			zzverif.Reach("built")
		case 5: // the owner of a failed writer carries on with its program: everything must keep failing
			zzverif.Assume(s.live && s.failed)
			m := s.w.Message()
			err1 := m.Field(9).Byte(1)
			_, err2 := m.Build()
			zzverif.Assert(err1 != nil && err2 != nil, "failed writer accepted further writes")
			if s.pooled {
				s.live = false // the program is over; an auto-released writer is dropped
			}
			zzverif.Reach("failed-continues")
		case 4: // the owner frees its writer: the documented duty for an explicitly owned one, and the way
			// a program gives up midway on a pooled one that it still holds (not yet auto-released)
			zzverif.Assume(s.live && !s.built)
			if s.pooled && !s.failed && zzverif.Bool() {
				m := s.w.Message() // gives up with a message open
				_ = m.Field(3).Byte(1)
			}
			s.w.Free()
			s.live = false
		}
		zzC18noAlias(slots)
	}
	zzverif.Reach("done")
}

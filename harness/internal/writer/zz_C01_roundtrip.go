package writer

import (
	"github.com/basecomplextech/baselibrary/buffer"
	"github.com/basecomplextech/spec/internal/decode"
	"github.com/basecomplextech/spec/internal/encode"
	"github.com/basecomplextech/spec/internal/format"
	"github.com/basecomplextech/spec/internal/types"
	"github.com/basecomplextech/spec/internal/zzverif"
)

// C01: a value tree built through the writer API and finished without error parses back to exactly
// that tree. Shapes are enumerated by the driver (param S); inside a shape the kinds (Choice), tags
// (symbolic uint16, pairwise distinct), values (full width) and string contents are symbolic.

func zzParseAll(out []byte) types.Value {
	v, n, err := types.ParseValue(out)
	zzverif.Assert(err == nil, "parse-ok")
	zzverif.Assert(n == len(out), "parser-consumes-exactly")
	zzverif.Assert(len(v) == len(out), "value-is-whole-output")
	return v
}

func zzCheckMessage(m types.Message, tags []uint16, vals []zzVal) {
	zzverif.Assert(m.Fields() == len(tags), "field-count")
	for i := range tags {
		zzverif.Assert(m.HasField(tags[i]), "has-written-tag")
		zzverif.Assert(vals[i].reads(m.Field(tags[i])), "field-value")
	}
	// no other tag is present; absent tags read as zero
	other := zzverif.Uint16()
	for i := range tags {
		zzverif.Assume(other != tags[i])
	}
	zzverif.Assert(zzAbsentReadsZero(m, other), "absent-tag-reads-zero")
	// tags strictly increasing by index
	prev := -1
	for i := 0; i < m.Fields(); i++ {
		t, ok := m.TagAt(i)
		zzverif.Assert(ok && int(t) > prev, "tags-sorted")
		prev = int(t)
	}
}

func ZZ_C01_Shapes() {
	kinds := zzverif.Param("KINDS")
	w := New(false)
	switch zzverif.Param("S") {
	case 0: // root scalar
		v := zzDrawVal(kinds)
		zzverif.Assert(v.write(w.Value()) == nil, "write-ok")
		out, err := w.Value().Build()
		zzverif.Assert(err == nil, "build-ok")
		x := zzParseAll(out)
		zzverif.Assert(v.reads(x), "root-value")

	case 1: // message with N scalar fields, symbolic distinct tags, any write order
		n := zzverif.Param("N")
		tags := make([]uint16, n)
		vals := make([]zzVal, n)
		for i := range tags {
			tags[i] = zzverif.Uint16()
		}
		zzDistinct(tags...)
		m := w.Message()
		for i := range tags {
			vals[i] = zzDrawVal(kinds)
			zzverif.Assert(vals[i].write(m.Field(tags[i])) == nil, "write-ok")
		}
		out, err := m.Build()
		zzverif.Assert(err == nil, "build-ok")
		x := zzParseAll(out)
		pm, err := x.MessageErr()
		zzverif.Assert(err == nil, "open-message")
		zzCheckMessage(pm, tags, vals)

	case 2: // list with N scalar elements
		n := zzverif.Param("N")
		vals := make([]zzVal, n)
		l := w.List()
		for i := range vals {
			vals[i] = zzDrawVal(kinds)
			zzverif.Assert(vals[i].write(l) == nil, "write-ok")
		}
		zzverif.Assert(l.Len() == n, "writer-len")
		out, err := l.Build()
		zzverif.Assert(err == nil, "build-ok")
		x := zzParseAll(out)
		pl, err := x.ListErr()
		zzverif.Assert(err == nil, "open-list")
		zzverif.Assert(pl.Len() == n, "list-len")
		for i := range vals {
			zzverif.Assert(vals[i].reads(pl.Get(i)), "element-value")
		}
		// clones of the list read like the list
		for _, cl := range []types.List{pl.Clone(), pl.CloneTo(nil), pl.CloneTo(make([]byte, len(pl.Raw())+3))} {
			zzverif.Assert(cl.Len() == n && string(cl.Raw()) == string(pl.Raw()), "list-clone")
			for i := range vals {
				zzverif.Assert(vals[i].reads(cl.Get(i)), "list-clone-element")
			}
		}

	case 3: // message { t1: message { t3: v }, t2: v2 } written in either order
		t1, t2, t3 := zzverif.Uint16(), zzverif.Uint16(), zzverif.Uint16()
		zzDistinct(t1, t2)
		v2, v3 := zzDrawVal(kinds), zzDrawVal(kinds)
		m := w.Message()
		first := zzverif.Bool()
		if first {
			zzverif.Assert(v2.write(m.Field(t2)) == nil, "write-ok")
		}
		in := m.Field(t1).Message()
		zzverif.Assert(v3.write(in.Field(t3)) == nil, "write-ok")
		zzverif.Assert(in.End() == nil, "end-ok")
		if !first {
			zzverif.Assert(v2.write(m.Field(t2)) == nil, "write-ok")
		}
		out, err := m.Build()
		zzverif.Assert(err == nil, "build-ok")
		pm := zzParseAll(out).Message()
		zzverif.Assert(pm.Fields() == 2, "field-count")
		zzverif.Assert(v2.reads(pm.Field(t2)), "field-value")
		inner := pm.Message(t1)
		zzCheckMessage(inner, []uint16{t3}, []zzVal{v3})

	case 4: // message { t1: list [v1, v2], t2: v3 }
		t1, t2 := zzverif.Uint16(), zzverif.Uint16()
		zzDistinct(t1, t2)
		v1, v2, v3 := zzDrawVal(kinds), zzDrawVal(kinds), zzDrawVal(kinds)
		m := w.Message()
		l := m.Field(t1).List()
		zzverif.Assert(v1.write(l) == nil && v2.write(l) == nil, "write-ok")
		zzverif.Assert(l.Len() == 2, "writer-len-of-nested-list")
		zzverif.Assert(l.End() == nil, "end-ok")
		zzverif.Assert(v3.write(m.Field(t2)) == nil, "write-ok")
		out, err := m.Build()
		zzverif.Assert(err == nil, "build-ok")
		pm := zzParseAll(out).Message()
		pl := pm.List(t1)
		zzverif.Assert(pl.Len() == 2 && v1.reads(pl.Get(0)) && v2.reads(pl.Get(1)), "nested-list")
		zzverif.Assert(v3.reads(pm.Field(t2)), "field-value")
		zzverif.Assert(pm.Fields() == 2, "field-count")

	case 5: // list [ message{t1: v1}, v2, list[v3] ]
		t1 := zzverif.Uint16()
		v1, v2, v3 := zzDrawVal(kinds), zzDrawVal(kinds), zzDrawVal(kinds)
		l := w.List()
		em := l.Message()
		zzverif.Assert(v1.write(em.Field(t1)) == nil, "write-ok")
		zzverif.Assert(em.End() == nil, "end-ok")
		zzverif.Assert(v2.write(l) == nil, "write-ok")
		el := l.List()
		zzverif.Assert(v3.write(el) == nil, "write-ok")
		zzverif.Assert(el.Len() == 1, "writer-len-of-nested-list")
		zzverif.Assert(el.End() == nil, "end-ok")
		zzverif.Assert(l.Len() == 3, "writer-len")
		out, err := l.Build()
		zzverif.Assert(err == nil, "build-ok")
		pl := zzParseAll(out).List()
		zzverif.Assert(pl.Len() == 3, "list-len")
		zzCheckMessage(pl.Get(0).Message(), []uint16{t1}, []zzVal{v1})
		zzverif.Assert(v2.reads(pl.Get(1)), "element-value")
		il := pl.Get(2).List()
		zzverif.Assert(il.Len() == 1 && v3.reads(il.Get(0)), "nested-list")

	case 6: // raw copy through Any: A = message{ta: va}; B = message{tc: Any(A)}; plus Clone
		ta, tc := zzverif.Uint16(), zzverif.Uint16()
		va := zzDrawVal(kinds)
		a := w.Message()
		zzverif.Assert(va.write(a.Field(ta)) == nil, "write-ok")
		abytes, err := a.Build()
		zzverif.Assert(err == nil, "build-ok")
		w2 := New(false)
		b := w2.Message()
		zzverif.Assert(b.Field(tc).Any(abytes) == nil, "any-ok")
		out, err := b.Build()
		zzverif.Assert(err == nil, "build-ok")
		pm := zzParseAll(out).Message()
		zzverif.Assert(pm.Fields() == 1, "field-count")
		zzCheckMessage(pm.Message(tc), []uint16{ta}, []zzVal{va})
		cl := pm.Clone()
		zzverif.Assert(cl.Fields() == 1 && va.reads(cl.Message(tc).Field(ta)), "clone")
		// CloneTo into a caller-provided slice: none, too short, exactly as long, longer (recycled scratch)
		var dst []byte
		switch zzverif.Choice(4) {
		case 1:
			dst = make([]byte, 1)
		case 2:
			dst = make([]byte, len(pm.Raw()))
		case 3:
			dst = make([]byte, len(pm.Raw())+3)
		}
		for i := range dst {
			dst[i] = 0xee
		}
		c2 := pm.CloneTo(dst)
		zzverif.Assert(c2.Fields() == 1 && va.reads(c2.Message(tc).Field(ta)), "clone-to")
		zzverif.Assert(string(c2.Raw()) == string(pm.Raw()), "clone-to-bytes")
		c3 := pm.CloneToBuffer(buffer.New())
		zzverif.Assert(c3.Fields() == 1 && string(c3.Raw()) == string(pm.Raw()), "clone-to-buffer")
		w2.Free()

	case 7: // Copy/Merge: A = message{ta: va, tb: vb}; B = message{td: vd}; B.Copy(A)
		ta, tb, td := zzverif.Uint16(), zzverif.Uint16(), zzverif.Uint16()
		zzDistinct(ta, tb)
		va, vb, vd := zzDrawVal(kinds), zzDrawVal(kinds), zzDrawVal(kinds)
		a := w.Message()
		zzverif.Assert(va.write(a.Field(ta)) == nil && vb.write(a.Field(tb)) == nil, "write-ok")
		abytes, err := a.Build()
		zzverif.Assert(err == nil, "build-ok")
		am, _, err := types.ParseMessage(abytes)
		zzverif.Assert(err == nil, "parse-ok")
		w2 := New(false)
		b := w2.Message()
		zzverif.Assert(vd.write(b.Field(td)) == nil, "write-ok")
		if zzverif.Bool() {
			zzverif.Assert(b.Copy(am) == nil, "copy-ok")
		} else {
			zzverif.Assert(b.Merge(am) == nil, "merge-ok")
		}
		out, err := b.Build()
		zzverif.Assert(err == nil, "build-ok")
		pm := zzParseAll(out).Message()
		zzverif.Assert(vd.reads(pm.Field(td)), "own-field-wins")
		n := 1
		if ta != td {
			zzverif.Assert(va.reads(pm.Field(ta)), "copied-field")
			n++
		}
		if tb != td {
			zzverif.Assert(vb.reads(pm.Field(tb)), "copied-field")
			n++
		}
		zzverif.Assert(pm.Fields() == n, "field-count")
		w2.Free()
	default:
		zzverif.Unsupported("bad S")
	}
	w.Free()
	zzverif.Reach("done")
}

// ZZ_C01_Boundary: counts beyond the preallocated tables/stack, and a big payload in front of
// another field (offset > 65535). Tags are concrete here (a fixed scrambled order), values symbolic.
func ZZ_C01_Boundary() {
	w := New(false)
	switch zzverif.Param("S") {
	case 0: // message with N byte fields written in scrambled order, tag base B
		n, base := zzverif.Param("N"), zzverif.Param("B")
		vals := make([]byte, n)
		m := w.Message()
		for i := 0; i < n; i++ {
			k := (i*37 + 11) % n // permutation when gcd(37,n)=1
			vals[k] = zzverif.Byte()
			zzverif.Assert(m.Field(uint16(base+k)).Byte(vals[k]) == nil, "write-ok")
		}
		out, err := m.Build()
		zzverif.Assert(err == nil, "build-ok")
		pm := zzParseAll(out).Message()
		zzverif.Assert(pm.Fields() == n, "field-count")
		for k := 0; k < n; k++ {
			r, err := pm.ByteErr(uint16(base + k))
			zzverif.Assert(err == nil && r == vals[k], "field-value")
		}
		zzverif.Assert(!pm.HasField(uint16(base+n)), "no-other-tag")
		if base > 0 {
			zzverif.Assert(!pm.HasField(uint16(base-1)), "no-other-tag")
		}
	case 1: // list with N byte elements (fixed-size encoding: no fork per element)
		n := zzverif.Param("N")
		vals := make([]byte, n)
		l := w.List()
		for i := 0; i < n; i++ {
			vals[i] = zzverif.Byte()
			zzverif.Assert(l.Byte(vals[i]) == nil, "write-ok")
		}
		out, err := l.Build()
		zzverif.Assert(err == nil, "build-ok")
		pl := zzParseAll(out).List()
		zzverif.Assert(pl.Len() == n, "list-len")
		for i := 0; i < n; i++ {
			r, err := pl.Get(i).ByteErr()
			zzverif.Assert(err == nil && r == vals[i], "element-value")
		}
	case 2: // nesting depth D: message{1: message{1: ... int32}}
		d := zzverif.Param("N")
		v := zzverif.Int32()
		ms := make([]MessageWriter, 0, d)
		m := w.Message()
		ms = append(ms, m)
		for i := 1; i < d; i++ {
			m = m.Field(1).Message()
			ms = append(ms, m)
		}
		zzverif.Assert(m.Field(2).Int32(v) == nil, "write-ok")
		var out []byte
		var err error
		for i := d - 1; i >= 0; i-- {
			out, err = ms[i].Build()
			zzverif.Assert(err == nil, "build-ok")
		}
		pm := zzParseAll(out).Message()
		for i := 1; i < d; i++ {
			pm = pm.Message(1)
		}
		r, err := pm.Int32Err(2)
		zzverif.Assert(err == nil && r == v, "deep-value")
	case 3: // message { t1: bytes[N], t2: int32 } in both write orders: offsets around 65535/65536
		n := zzverif.Param("N")
		t1, t2 := zzverif.Uint16(), zzverif.Uint16()
		zzDistinct(t1, t2)
		big := zzverif.BytesSparse(n, 4)
		v := zzverif.Int32()
		m := w.Message()
		first := zzverif.Bool()
		if first {
			zzverif.Assert(m.Field(t2).Int32(v) == nil, "write-ok")
		}
		zzverif.Assert(m.Field(t1).Bytes(big) == nil, "write-ok")
		if !first {
			zzverif.Assert(m.Field(t2).Int32(v) == nil, "write-ok")
		}
		out, err := m.Build()
		zzverif.Assert(err == nil, "build-ok")
		pm := zzParseAll(out).Message()
		zzverif.Assert(pm.Fields() == 2, "field-count")
		r, err := pm.Int32Err(t2)
		zzverif.Assert(err == nil && r == v, "field-value")
		rb, err := pm.BytesErr(t1)
		zzverif.Assert(err == nil && len(rb) == n, "bytes-len")
		zzverif.Assert(rb[0] == big[0] && rb[n-1] == big[n-1] && rb[n/2] == big[n/2], "bytes-content")
	case 4: // list [ bytes[N], int32 ]: element offsets around 65535/65536
		n := zzverif.Param("N")
		big := zzverif.BytesSparse(n, 4)
		v := zzverif.Int32()
		l := w.List()
		zzverif.Assert(l.Bytes(big) == nil && l.Int32(v) == nil, "write-ok")
		out, err := l.Build()
		zzverif.Assert(err == nil, "build-ok")
		pl := zzParseAll(out).List()
		zzverif.Assert(pl.Len() == 2, "list-len")
		r, err := pl.Get(1).Int32Err()
		zzverif.Assert(err == nil && r == v, "element-value")
		rb, err := pl.Get(0).BytesErr()
		zzverif.Assert(err == nil && len(rb) == n && rb[0] == big[0] && rb[n-1] == big[n-1], "bytes-content")
	default:
		zzverif.Unsupported("bad S")
	}
	w.Free()
	zzverif.Reach("done")
}

// ZZ_C01_MsgTable: the table layer on arbitrary contents. An arbitrary table of N fields with
// strictly increasing symbolic tags and fully symbolic 32-bit offsets goes through the real
// EncodeMessageTable -> DecodeMessageTable -> Offset/OffsetByIndex/Field. Covers every offset
// 0..2^32-1 and both sides of tag 255/256 and offset 65535/65536.
func ZZ_C01_MsgTable() {
	n := zzverif.Param("N")
	table := make([]format.MessageField, n)
	for i := range table {
		table[i] = format.MessageField{Tag: zzverif.Uint16(), Offset: zzverif.Uint32()}
		if i > 0 {
			zzverif.Assume(table[i-1].Tag < table[i].Tag)
		}
	}
	dataSize := zzverif.Uint32()
	zzverif.Assume(dataSize <= format.MaxSize)
	buf := buffer.New()
	sz, err := encode.EncodeMessageTable(buf, int(dataSize), table)
	zzverif.Assert(err == nil && sz == buf.Len(), "encode-ok")
	// the decoder needs dataSize bytes of body in front of the table: a symbolic small size, or one
	// of the size-class boundary values (parameter DS)
	if ds := zzverif.Param("DS"); ds >= 0 {
		zzverif.Assume(dataSize == uint32(ds))
	} else {
		zzverif.Assume(dataSize <= 4)
	}
	b := append(make([]byte, dataSize), buf.Bytes()...)
	t, size, err := decode.DecodeMessageTable(b)
	zzverif.Assert(err == nil, "decode-ok")
	zzverif.Assert(size == len(b), "decode-size")
	zzverif.Assert(t.Len() == n && t.DataSize() == dataSize, "table-meta")
	for i := range table {
		zzverif.Assert(t.Offset(table[i].Tag) == int(table[i].Offset), "offset-by-tag")
		zzverif.Assert(t.OffsetByIndex(i) == int(table[i].Offset), "offset-by-index")
		f, ok := t.Field(i)
		zzverif.Assert(ok && f == table[i], "field-by-index")
	}
	other := zzverif.Uint16()
	for i := range table {
		zzverif.Assume(other != table[i].Tag)
	}
	zzverif.Assert(t.Offset(other) == -1, "absent-tag")
	zzverif.Assert(t.OffsetByIndex(n) == -1 && t.OffsetByIndex(-1) == -1, "absent-index")
	zzverif.Reach("done")
}

// ZZ_C01_ListTable: same for the list element table (offsets non-decreasing as the writer makes them).
func ZZ_C01_ListTable() {
	n := zzverif.Param("N")
	table := make([]format.ListElement, n)
	for i := range table {
		table[i] = format.ListElement{Offset: zzverif.Uint32()}
		if i > 0 {
			zzverif.Assume(table[i-1].Offset <= table[i].Offset)
		}
	}
	dataSize := zzverif.Uint32()
	if ds := zzverif.Param("DS"); ds >= 0 {
		zzverif.Assume(dataSize == uint32(ds))
	} else {
		zzverif.Assume(dataSize <= 4)
	}
	buf := buffer.New()
	sz, err := encode.EncodeListTable(buf, int(dataSize), table)
	zzverif.Assert(err == nil && sz == buf.Len(), "encode-ok")
	b := append(make([]byte, dataSize), buf.Bytes()...)
	t, size, err := decode.DecodeListTable(b)
	zzverif.Assert(err == nil, "decode-ok")
	zzverif.Assert(size == len(b), "decode-size")
	zzverif.Assert(t.Len() == n && t.DataSize() == dataSize, "table-meta")
	for i := range table {
		start, end := t.Offset(i)
		want := 0
		if i > 0 {
			want = int(table[i-1].Offset)
		}
		zzverif.Assert(end == int(table[i].Offset) && start == want, "element-offsets")
	}
	s, e := t.Offset(n)
	zzverif.Assert(s == -1 && e == -1, "absent-index")
	zzverif.Reach("done")
}

package writer

import (
	"github.com/basecomplextech/spec/internal/types"
	"github.com/basecomplextech/spec/internal/zzverif"
)

// C16 (dynamic tag-based API): a message written under one schema version is read under another
// version that adds / removes / renames / reorders fields while keeping tags.
//
// Writer version A = N fields with symbolic pairwise distinct tags, symbolic kinds and values,
// written in index order (any tag order). Reader version A' = R tags, each an arbitrary symbolic
// uint16: it may coincide with a written tag (common field), or not (field unknown to the writer).
// Written tags the reader never asks for are "unknown to the reader".

func ZZ_C16_Evolve() {
	kinds := zzverif.Param("KINDS")
	n := zzverif.Param("N")
	tags := make([]uint16, n)
	vals := make([]zzVal, n)
	for i := range tags {
		tags[i] = zzverif.Uint16()
	}
	zzDistinct(tags...)
	w := New(false)
	m := w.Message()
	for i := range tags {
		vals[i] = zzDrawVal(kinds)
		zzverif.Assert(vals[i].write(m.Field(tags[i])) == nil, "write-ok")
	}
	out, err := m.Build()
	zzverif.Assert(err == nil, "build-ok")
	pm, _, err := types.ParseMessage(out)
	zzverif.Assert(err == nil, "parse-ok")

	r := zzverif.Param("R")
	for j := 0; j < r; j++ {
		rt := zzverif.Uint16()
		common := -1
		for i := range tags {
			if tags[i] == rt {
				common = i
			}
		}
		if common >= 0 {
			// field common to both versions: reads back unchanged, whatever else is in the message
			zzverif.Assert(pm.HasField(rt), "common-field-present")
			zzverif.Assert(vals[common].reads(pm.Field(rt)), "common-field-unchanged")
			zzverif.Reach("common")
		} else {
			// field absent from the data: zero value, presence false
			zzverif.Assert(zzAbsentReadsZero(pm, rt), "absent-field-reads-zero")
			zzverif.Reach("absent")
		}
	}
	zzverif.Reach("done")
}

// ZZ_C16_CopyUnknown: copying / merging a message through a writer that knows only some of its
// fields preserves the unknown fields' values. The source has N fields; the destination version
// "knows" a symbolic subset, which it rewrites with new values before Copy/Merge.
func ZZ_C16_CopyUnknown() {
	kinds := zzverif.Param("KINDS")
	n := zzverif.Param("N")
	tags := make([]uint16, n)
	vals := make([]zzVal, n)
	for i := range tags {
		tags[i] = zzverif.Uint16()
	}
	zzDistinct(tags...)
	w := New(false)
	src := w.Message()
	for i := range tags {
		vals[i] = zzDrawVal(kinds)
		zzverif.Assert(vals[i].write(src.Field(tags[i])) == nil, "write-ok")
	}
	sb, err := src.Build()
	zzverif.Assert(err == nil, "build-ok")
	sm, _, err := types.ParseMessage(sb)
	zzverif.Assert(err == nil, "parse-ok")

	w2 := New(false)
	dst := w2.Message()
	known := make([]bool, n)
	nvals := make([]zzVal, n)
	for i := range tags {
		known[i] = zzverif.Bool()
		if known[i] {
			nvals[i] = zzDrawVal(kinds)
			zzverif.Assert(nvals[i].write(dst.Field(tags[i])) == nil, "write-ok")
		}
	}
	if zzverif.Bool() {
		zzverif.Assert(dst.Copy(sm) == nil, "copy-ok")
	} else {
		zzverif.Assert(dst.Merge(sm) == nil, "merge-ok")
	}
	out, err := dst.Build()
	zzverif.Assert(err == nil, "build-ok")
	pm, sz, err := types.ParseMessage(out)
	zzverif.Assert(err == nil && sz == len(out), "result-parses-completely")
	zzverif.Assert(pm.Fields() == n, "field-count")
	for i := range tags {
		if known[i] {
			zzverif.Assert(nvals[i].reads(pm.Field(tags[i])), "known-field-keeps-destination-value")
		} else {
			zzverif.Assert(vals[i].reads(pm.Field(tags[i])), "unknown-field-preserved")
			zzverif.Reach("unknown-preserved")
		}
	}
	zzverif.Reach("done")
}

// ZZ_C16_CopyNested: as CopyUnknown, but the rewriting version builds the message as a *nested* field of
// an outer message that has already written a field of its own (tag and value symbolic: the tag may
// coincide with a tag of the copied message, tag spaces of different messages are independent), so the
// destination neither starts at buffer offset 0 nor has an empty enclosing field stack. Added after
// seeds C16-r4m1 (has-field test leaking into the enclosing message's table) and C16-r4m2 (copied
// fields recorded at absolute buffer offsets).
func ZZ_C16_CopyNested() {
	kinds := zzverif.Param("KINDS")
	n := zzverif.Param("N")
	tags := make([]uint16, n)
	vals := make([]zzVal, n)
	for i := range tags {
		tags[i] = zzverif.Uint16()
	}
	zzDistinct(tags...)
	w := New(false)
	src := w.Message()
	for i := range tags {
		vals[i] = zzDrawVal(kinds)
		zzverif.Assert(vals[i].write(src.Field(tags[i])) == nil, "write-ok")
	}
	sb, err := src.Build()
	zzverif.Assert(err == nil, "build-ok")
	sm, _, err := types.ParseMessage(sb)
	zzverif.Assert(err == nil, "parse-ok")

	w2 := New(false)
	outer := w2.Message()
	// the outer message's own field reuses the first copied tag (the collision a has-field test that
	// leaks into the enclosing table would trip over); the nested message sits under the next tag
	ptag := tags[0]
	zzverif.Assume(ptag != 65535)
	ftag := ptag + 1
	pval := zzDrawVal(kinds)
	zzverif.Assert(pval.write(outer.Field(ptag)) == nil, "write-ok")
	dst := outer.Field(ftag).Message()
	known := make([]bool, n)
	nvals := make([]zzVal, n)
	for i := range tags {
		known[i] = zzverif.Bool()
		if known[i] {
			nvals[i] = zzDrawVal(kinds)
			zzverif.Assert(nvals[i].write(dst.Field(tags[i])) == nil, "write-ok")
		}
	}
	if zzverif.Bool() {
		zzverif.Assert(dst.Copy(sm) == nil, "copy-ok")
	} else {
		zzverif.Assert(dst.Merge(sm) == nil, "merge-ok")
	}
	zzverif.Assert(dst.End() == nil, "end-ok")
	out, err := outer.Build()
	zzverif.Assert(err == nil, "build-ok")
	om, sz, err := types.ParseMessage(out)
	zzverif.Assert(err == nil && sz == len(out), "result-parses-completely")
	zzverif.Assert(om.Fields() == 2, "outer-field-count")
	zzverif.Assert(pval.reads(om.Field(ptag)), "outer-field-intact")
	pm := om.Message(ftag)
	zzverif.Assert(pm.Fields() == n, "nested-field-count")
	for i := range tags {
		if known[i] {
			zzverif.Assert(nvals[i].reads(pm.Field(tags[i])), "nested-known-field-keeps-destination-value")
		} else {
			zzverif.Assert(vals[i].reads(pm.Field(tags[i])), "nested-unknown-field-preserved")
			zzverif.Reach("unknown-preserved")
		}
	}
	zzverif.Reach("done")
}

// ZZ_C16_CopyBig: the unknown field is a payload of N bytes (around the 65535/65536 offset
// boundary), written after a small known field; tags symbolic, so every tag order and both table
// forms are covered. Reading under the new version and Copy through a writer that knows only the
// small field both preserve the big unknown field.
func ZZ_C16_CopyBig() {
	n := zzverif.Param("N")
	ta, tb := zzverif.Uint16(), zzverif.Uint16()
	zzverif.Assume(ta != tb)
	va, nva := zzverif.Byte(), zzverif.Byte()
	big := zzverif.BytesSparse(n, 4)
	w := New(false)
	src := w.Message()
	zzverif.Assert(src.Field(ta).Byte(va) == nil, "write-ok")
	zzverif.Assert(src.Field(tb).Bytes(big) == nil, "write-ok")
	sb, err := src.Build()
	zzverif.Assert(err == nil, "build-ok")
	sm, _, err := types.ParseMessage(sb)
	zzverif.Assert(err == nil, "parse-ok")
	r, err := sm.ByteErr(ta)
	zzverif.Assert(err == nil && r == va, "common-field-unchanged")

	w2 := New(false)
	dst := w2.Message()
	zzverif.Assert(dst.Field(ta).Byte(nva) == nil, "write-ok")
	zzverif.Assert(dst.Merge(sm) == nil, "merge-ok")
	out, err := dst.Build()
	zzverif.Assert(err == nil, "build-ok")
	pm, sz, err := types.ParseMessage(out)
	zzverif.Assert(err == nil && sz == len(out), "result-parses-completely")
	r2, err := pm.ByteErr(ta)
	zzverif.Assert(err == nil && r2 == nva, "known-field-keeps-destination-value")
	rb, err := pm.BytesErr(tb)
	zzverif.Assert(err == nil && len(rb) == n, "unknown-field-preserved-length")
	zzverif.Assert(rb[0] == big[0] && rb[n-1] == big[n-1] && rb[n/2] == big[n/2], "unknown-field-preserved")
	zzverif.Reach("done")
}

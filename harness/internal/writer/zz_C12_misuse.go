package writer

import (
	"github.com/basecomplextech/spec/internal/types"
	"github.com/basecomplextech/spec/internal/zzverif"
)

// C12: for every sequence of calls on an explicitly owned writer and on the handles derived from it
// (including nesting violations, repeated End/Build, writes after an error) no call panics, the
// first error is sticky and is reported by all later calls, a successful Build returns bytes that
// parse completely, Free is always safe and Reset returns the writer to a clean state.
//
// The program is symbolic: K steps, each an arbitrary choice among the operations below, applied to
// an arbitrary live-or-stale handle, with symbolic tags and values.

type zzC12 struct {
	w      Writer
	msgs   []*MessageWriter // handles obtained from the writer (live or stale)
	lists  []ListWriter
	failed bool  // some error-returning call returned non-nil since the last Reset
	first  error // the first such error
}

func (s *zzC12) saw(err error) {
	if s.failed {
		zzverif.Assert(err != nil, "sticky: later call returned nil after an error")
		zzverif.Assert(err == s.first, "sticky: later call returned a different error")
	}
	if err != nil && !s.failed {
		s.failed = true
		s.first = err
	}
}

func (s *zzC12) built(b []byte, err error) {
	s.saw(err)
	if err == nil {
		v, n, perr := types.ParseValue(b)
		zzverif.Assert(perr == nil, "build-output-parses")
		zzverif.Assert(n == len(b) && len(v) == len(b), "build-output-parses-completely")
		zzverif.Reach("built")
	}
}

func (s *zzC12) msg() *MessageWriter {
	zzverif.Assume(len(s.msgs) > 0)
	return s.msgs[zzverif.Choice(len(s.msgs))]
}

func (s *zzC12) list() ListWriter {
	zzverif.Assume(len(s.lists) > 0)
	return s.lists[zzverif.Choice(len(s.lists))]
}

func (s *zzC12) addMsg(m MessageWriter) { s.msgs = append(s.msgs, &m) }

var zzC12small = []byte{1, 3, 2, 0, 2, 2, 3, 80} // message{2: byte(1)}: valid encoding for Any/Copy

const zzC12ops = 20

// core alphabet (structure-changing operations only) for deeper programs
var zzC12core = []int{2, 6, 9, 10, 12, 4, 7, 13, 14}

func zzC12pick() int {
	if zzverif.Param("CORE") == 1 {
		return zzC12core[zzverif.Choice(len(zzC12core))]
	}
	return zzverif.Choice(zzC12ops)
}

// plain: the full-alphabet programs also go through the ValueWriter forms (Value().Message/List/Any);
// the deeper core-alphabet programs use the plain forms only.
func (s *zzC12) plain() bool {
	return zzverif.Param("CORE") == 1 || zzverif.Bool()
}

func (s *zzC12) step(op int) {
	switch op {
	case 0:
		if s.plain() {
			s.addMsg(s.w.Message())
		} else {
			s.addMsg(s.w.Value().Message())
		}
	case 1:
		if s.plain() {
			s.lists = append(s.lists, s.w.List())
		} else {
			s.lists = append(s.lists, s.w.Value().List())
		}
	case 2:
		s.saw(s.msg().Field(zzverif.Uint16()).Byte(zzverif.Byte()))
	case 3:
		s.saw(s.msg().Field(zzverif.Uint16()).String(zzverif.String(1)))
	case 4:
		s.addMsg(s.msg().Field(zzverif.Uint16()).Message())
	case 5:
		s.lists = append(s.lists, s.msg().Field(zzverif.Uint16()).List())
	case 6:
		s.saw(s.list().Float64(zzverif.Float64()))
	case 7:
		s.addMsg(s.list().Message())
	case 8:
		s.lists = append(s.lists, s.list().List())
	case 9:
		s.saw(s.msg().End())
	case 10:
		s.built(s.msg().Build())
	case 11:
		s.saw(s.list().End())
	case 12:
		s.built(s.list().Build())
	case 13:
		if s.plain() {
			s.saw(s.w.Value().Bool(zzverif.Bool()))
		} else {
			s.saw(s.w.Value().Any(zzC12small))
		}
	case 14:
		s.built(s.w.Value().Build())
	case 15:
		s.saw(s.msg().Field(zzverif.Uint16()).Any(zzC12small))
	case 16:
		src, _, err := types.ParseMessage(zzC12small)
		zzverif.Assume(err == nil)
		if zzverif.Bool() {
			s.saw(s.msg().Copy(src))
		} else {
			s.saw(s.msg().Merge(src))
		}
	case 17:
		e := s.w.Err()
		if s.failed {
			zzverif.Assert(e != nil, "sticky: Err() is nil after an error")
			zzverif.Assert(e == s.first, "sticky: Err() is not the first error")
		}
		_ = s.list
	case 18:
		s.w.Reset(nil)
		s.failed, s.first = false, nil
		s.msgs, s.lists = nil, nil // handles of the previous use are gone
		// clean state: a fixed small program gives the same bytes as on a fresh writer
		if zzverif.Bool() {
			m := s.w.Message()
			zzverif.Assert(m.Field(5).Byte(7) == nil, "reset: write after Reset failed")
			b, err := m.Build()
			zzverif.Assert(err == nil, "reset: build after Reset failed")
			zzverif.Assert(string(b) == string([]byte{7, 3, 5, 0, 2, 2, 3, 80}), "reset: bytes differ from a fresh writer")
			s.failed, s.first = true, s.w.Err() // closed
			zzverif.Reach("reset-clean")
		}
	case 19:
		s.w.Free()
		if !s.failed {
			s.failed, s.first = true, s.w.Err()
		}
		zzverif.Reach("freed")
	}
}

// observe calls the read-only methods of every handle obtained so far (live or stale): they are
// calls like any other and must not panic either.
func (s *zzC12) observe() {
	for _, l := range s.lists {
		n := l.Len()
		zzverif.Assert(n >= 0, "list length negative")
		e := l.Err()
		if s.failed {
			zzverif.Assert(e == s.first, "sticky: list handle's Err() is not the first error")
		}
	}
	for _, m := range s.msgs {
		_ = m.HasField(5) // (a concrete tag: a symbolic one would fork on every table lookup)
	}
}

func ZZ_C12_Program() {
	s := &zzC12{w: New(false)}
	k := zzverif.Param("K")
	for i := 0; i < k; i++ {
		s.step(zzC12pick())
		s.observe()
	}
	zzverif.Reach("done")
}

// ZZ_C12_Directed: the same step function driven by a fixed prefix (param P) followed by K symbolic
// steps, to reach deeper states than K symbolic steps from the initial state allow.
func ZZ_C12_Directed() {
	s := &zzC12{w: New(false)}
	switch zzverif.Param("P") {
	case 0: // open message with one field
		s.step(0)
		s.saw(s.msgs[0].Field(1).Byte(1))
	case 1: // list inside message inside list
		s.step(1)
		s.addMsg(s.lists[0].Message())
		s.lists = append(s.lists, s.msgs[0].Field(3).List())
	case 2: // a writer that already failed
		s.step(0)
		s.saw(s.w.Value().Bool(true))
		s.saw(s.w.Value().Bool(true))
		zzverif.Assume(s.failed)
	case 3: // a writer whose root was built
		s.step(0)
		s.built(s.msgs[0].Build())
	case 4: // list with one element written and a message element still open
		s.step(1)
		s.saw(s.lists[0].Float64(1.5))
		s.addMsg(s.lists[0].Message())
	case 5: // message with an open field message that has one field
		s.step(0)
		s.addMsg(s.msgs[0].Field(2).Message())
		s.saw(s.msgs[1].Field(1).Byte(9))
	}
	k := zzverif.Param("K")
	for i := 0; i < k; i++ {
		s.step(zzC12pick())
	}
	s.observe()
	zzverif.Reach("done")
}

package writer

import (
	"math"

	"github.com/basecomplextech/baselibrary/buffer"
	"github.com/basecomplextech/spec/internal/decode"
	"github.com/basecomplextech/spec/internal/encode"
	"github.com/basecomplextech/spec/internal/format"
	"github.com/basecomplextech/spec/internal/types"
	"github.com/basecomplextech/spec/internal/zzverif"
)

// C08: (a) the bytes produced for a sequence of write operations depend only on that sequence, not
// on writer reuse or buffer history; (b) they follow the pinned wire layout. The reference encoder
// below is written from the property statement (type codes as literals, big-endian, reverse compact
// varints, zig-zag, NUL after strings, tables sorted by tag, big form iff tag>255 / offset>65535 /
// more than 255 list elements) and shares no code with the library.

// ---- reference encoder ---------------------------------------------------------------------------

func refVarint(out []byte, v uint64) []byte {
	switch {
	case v <= 0xfc:
		return append(out, byte(v))
	case v <= 0xffff:
		return append(out, byte(v>>8), byte(v), 0xfd)
	case v <= 0xffffffff:
		return append(out, byte(v>>24), byte(v>>16), byte(v>>8), byte(v), 0xfe)
	}
	return append(out, byte(v>>56), byte(v>>48), byte(v>>40), byte(v>>32), byte(v>>24), byte(v>>16), byte(v>>8), byte(v), 0xff)
}

func refZigzag(x int64) uint64 {
	u := uint64(x) << 1
	if x < 0 {
		u = ^u
	}
	return u
}

func refBE(out []byte, v uint64, n int) []byte {
	for i := n - 1; i >= 0; i-- {
		out = append(out, byte(v>>(8*uint(i))))
	}
	return out
}

func refScalar(out []byte, v zzVal) []byte {
	switch v.kind {
	case zzBool:
		if v.b {
			return append(out, 1)
		}
		return append(out, 2)
	case zzByte:
		return append(out, v.u8, 3)
	case zzInt16:
		return append(refVarint(out, uint64(uint32(refZigzag(int64(v.i16))))), 10)
	case zzInt32:
		return append(refVarint(out, uint64(uint32(refZigzag(int64(v.i32))))), 11)
	case zzInt64:
		return append(refVarint(out, refZigzag(v.i64)), 12)
	case zzUint16:
		return append(refVarint(out, uint64(v.u16)), 20)
	case zzUint32:
		return append(refVarint(out, uint64(v.u32)), 21)
	case zzUint64:
		return append(refVarint(out, v.u64), 22)
	case zzFloat32:
		return append(refBE(out, uint64(math.Float32bits(v.f32)), 4), 40)
	case zzFloat64:
		return append(refBE(out, math.Float64bits(v.f64), 8), 41)
	case zzBin64:
		return append(append(out, v.b64[:]...), 30)
	case zzBin128:
		out = append(out, v.b128[0][:]...)
		out = append(out, v.b128[1][:]...)
		return append(out, 31)
	case zzBin256:
		out = append(out, v.b256[0][:]...)
		out = append(out, v.b256[1][:]...)
		out = append(out, v.b256[2][:]...)
		out = append(out, v.b256[3][:]...)
		return append(out, 32)
	case zzBytes:
		out = append(out, v.raw...)
		return append(refVarint(out, uint64(len(v.raw))), 50)
	case zzString:
		out = append(out, v.str...)
		out = append(out, 0)
		return append(refVarint(out, uint64(len(v.str))), 60)
	}
	zzverif.Unsupported("ref: bad kind")
	return nil
}

// refMessage appends a message whose fields (tags[i], bodies[i]) were written in index order.
func refMessage(out []byte, tags []uint16, bodies [][]byte) []byte {
	n := len(tags)
	ends := make([]uint32, n)
	size := 0
	for i := 0; i < n; i++ {
		out = append(out, bodies[i]...)
		size += len(bodies[i])
		ends[i] = uint32(size)
	}
	// order by tag (selection, no library code)
	idx := make([]int, n)
	for i := range idx {
		idx[i] = i
	}
	for i := 0; i < n; i++ {
		for j := i + 1; j < n; j++ {
			if tags[idx[j]] < tags[idx[i]] {
				idx[i], idx[j] = idx[j], idx[i]
			}
		}
	}
	big := false
	for i := 0; i < n; i++ {
		if tags[i] > 255 || ends[i] > 65535 {
			big = true
		}
	}
	tableSize := 0
	for _, k := range idx {
		if big {
			out = refBE(out, uint64(tags[k]), 2)
			out = refBE(out, uint64(ends[k]), 4)
			tableSize += 6
		} else {
			out = append(out, byte(tags[k]))
			out = refBE(out, uint64(ends[k]), 2)
			tableSize += 3
		}
	}
	out = refVarint(out, uint64(size))
	out = refVarint(out, uint64(tableSize))
	if big {
		return append(out, 81)
	}
	return append(out, 80)
}

func refList(out []byte, bodies [][]byte) []byte {
	n := len(bodies)
	ends := make([]uint32, n)
	size := 0
	for i := 0; i < n; i++ {
		out = append(out, bodies[i]...)
		size += len(bodies[i])
		ends[i] = uint32(size)
	}
	big := n > 255 || size > 65535
	tableSize := 0
	for i := 0; i < n; i++ {
		if big {
			out = refBE(out, uint64(ends[i]), 4)
			tableSize += 4
		} else {
			out = refBE(out, uint64(ends[i]), 2)
			tableSize += 2
		}
	}
	out = refVarint(out, uint64(size))
	out = refVarint(out, uint64(tableSize))
	if big {
		return append(out, 71)
	}
	return append(out, 70)
}

// ---- reference decoder (enough to read a flat message / list of scalars back) ----------------------

func refReadVarint(b []byte) (uint64, int) {
	n := len(b)
	switch b[n-1] {
	case 0xfd:
		return uint64(b[n-3])<<8 | uint64(b[n-2]), 3
	case 0xfe:
		return uint64(b[n-5])<<24 | uint64(b[n-4])<<16 | uint64(b[n-3])<<8 | uint64(b[n-2]), 5
	case 0xff:
		var v uint64
		for i := 9; i >= 2; i-- {
			v = v<<8 | uint64(b[n-i])
		}
		return v, 9
	}
	return uint64(b[n-1]), 1
}

// refFieldEnd finds the end offset of a field by linear scan of the table, or -1.
func refFieldEnd(b []byte, tag uint16) (end int, dataStart int) {
	n := len(b)
	typ := b[n-1]
	p := n - 1
	ts, k := refReadVarint(b[:p])
	p -= k
	ds, k := refReadVarint(b[:p])
	p -= k
	tstart := p - int(ts)
	dataStart = tstart - int(ds)
	esz := 3
	if typ == 81 {
		esz = 6
	}
	for o := tstart; o+esz <= p; o += esz {
		if typ == 81 {
			if uint16(b[o])<<8|uint16(b[o+1]) == tag {
				return int(uint32(b[o+2])<<24 | uint32(b[o+3])<<16 | uint32(b[o+4])<<8 | uint32(b[o+5])), dataStart
			}
		} else if uint16(b[o]) == tag {
			return int(uint16(b[o+1])<<8 | uint16(b[o+2])), dataStart
		}
	}
	return -1, dataStart
}

// ---- harness --------------------------------------------------------------------------------------

// zzDirtyWriter returns an explicitly owned writer that has a history (param PREV) and whose next
// output buffer is recycled memory with arbitrary stale contents.
func zzDirtyWriter() Writer {
	w := New(false)
	switch zzverif.Param("PREV") {
	case 0: // a completed message
		m := w.Message()
		m.Field(7).Float64(zzverif.Float64())
		m.Field(300).String(zzverif.String(2))
		m.Build()
	case 1: // abandoned in the middle of nested objects
		m := w.Message()
		m.Field(9).Float32(zzverif.Float32())
		l := m.Field(3).List()
		l.Byte(zzverif.Byte())
		l.Message()
	case 2: // failed (misuse), the state went back to the pool and comes back on Reset
		l := w.List()
		l.Byte(zzverif.Byte())
		w.Value().Int32(1)
		w.Value().Int32(2) // two values without an element/field in between: error
		zzverif.Assume(w.Err() != nil)
	}
	stale := zzverif.Bytes(zzverif.Param("STALE"))
	w.Reset(buffer.NewBytes(stale[:0]))
	return w
}

func zzC08run(w Writer, shape int, tags []uint16, vals []zzVal) []byte {
	var out []byte
	var err error
	switch shape {
	case 0:
		zzverif.Assert(vals[0].write(w.Value()) == nil, "write-ok")
		out, err = w.Value().Build()
	case 1:
		m := w.Message()
		for i := range tags {
			zzverif.Assert(vals[i].write(m.Field(tags[i])) == nil, "write-ok")
		}
		out, err = m.Build()
	case 2:
		l := w.List()
		for i := range vals {
			zzverif.Assert(vals[i].write(l) == nil, "write-ok")
		}
		out, err = l.Build()
	case 3: // message{ tags[0]: message{ tags[1]: vals[1] }, tags[2]: vals[2] }   (vals[0] unused)
		m := w.Message()
		in := m.Field(tags[0]).Message()
		zzverif.Assert(vals[1].write(in.Field(tags[1])) == nil, "write-ok")
		zzverif.Assert(in.End() == nil, "end-ok")
		zzverif.Assert(vals[2].write(m.Field(tags[2])) == nil, "write-ok")
		out, err = m.Build()
	case 4: // list[ list[vals[0]], vals[1] ]
		l := w.List()
		in := l.List()
		zzverif.Assert(vals[0].write(in) == nil, "write-ok")
		zzverif.Assert(in.End() == nil, "end-ok")
		zzverif.Assert(vals[1].write(l) == nil, "write-ok")
		out, err = l.Build()
	}
	zzverif.Assert(err == nil, "build-ok")
	return out
}

func zzC08ref(shape int, tags []uint16, vals []zzVal) []byte {
	bodies := make([][]byte, len(vals))
	for i := range vals {
		bodies[i] = refScalar(nil, vals[i])
	}
	switch shape {
	case 0:
		return bodies[0]
	case 1:
		return refMessage(nil, tags, bodies)
	case 2:
		return refList(nil, bodies)
	case 3:
		inner := refMessage(nil, tags[1:2], bodies[1:2])
		return refMessage(nil, []uint16{tags[0], tags[2]}, [][]byte{inner, bodies[2]})
	case 4:
		inner := refList(nil, bodies[0:1])
		return refList(nil, [][]byte{inner, bodies[1]})
	}
	return nil
}

func zzC08draw(shape, n, kinds int) ([]uint16, []zzVal) {
	switch shape {
	case 0:
		n = 1
	case 3:
		n = 3
	case 4:
		n = 2
	}
	tags := make([]uint16, n)
	vals := make([]zzVal, n)
	for i := range tags {
		tags[i] = zzverif.Uint16()
		vals[i] = zzDrawVal(kinds)
	}
	switch shape {
	case 1:
		zzDistinct(tags...)
	case 3:
		zzverif.Assume(tags[0] != tags[2])
	}
	return tags, vals
}

// ZZ_C08_Layout: library bytes == reference bytes, for every shape/kind/tag/value.
func ZZ_C08_Layout() {
	shape := zzverif.Param("S")
	tags, vals := zzC08draw(shape, zzverif.Param("N"), zzverif.Param("KINDS"))
	w := New(false)
	out := zzC08run(w, shape, tags, vals)
	ref := zzC08ref(shape, tags, vals)
	zzverif.Assert(len(out) == len(ref), "layout-length")
	zzverif.Assert(string(out) == string(ref), "layout-bytes")
	// an independent decoder finds every field of a flat message where it was written
	if shape == 1 {
		for i := range tags {
			end, ds := refFieldEnd(out, tags[i])
			zzverif.Assert(end >= 0, "ref-decoder-finds-field")
			body := refScalar(nil, vals[i])
			zzverif.Assert(end >= len(body), "ref-decoder-offset")
			zzverif.Assert(string(out[ds+end-len(body):ds+end]) == string(body), "ref-decoder-value")
		}
	}
	// the library reads reference-encoded bytes back to the written values
	if shape == 1 {
		m, n, err := types.ParseMessage(ref)
		zzverif.Assert(err == nil && n == len(ref), "library-parses-reference")
		for i := range tags {
			zzverif.Assert(vals[i].reads(m.Field(tags[i])), "library-reads-reference")
		}
		other := zzverif.Uint16()
		for i := range tags {
			zzverif.Assume(other != tags[i])
		}
		zzverif.Assert(zzAbsentReadsZero(m, other), "library-reads-reference-absent-tag")
	}
	zzverif.Observe("out", out)
	zzverif.Reach("done")
}

// ZZ_C08_History: the same operations on a fresh writer and on a writer with a history whose
// buffer is recycled memory with arbitrary stale contents produce identical bytes.
func ZZ_C08_History() {
	shape := zzverif.Param("S")
	tags, vals := zzC08draw(shape, zzverif.Param("N"), zzverif.Param("KINDS"))
	fresh := zzC08run(New(false), shape, tags, vals)
	dirty := zzC08run(zzDirtyWriter(), shape, tags, vals)
	zzverif.Assert(len(fresh) == len(dirty), "history-length")
	zzverif.Assert(string(fresh) == string(dirty), "history-independent-bytes")
	zzverif.Reach("done")
}

// ZZ_C08_Sized: byte strings and strings of the size-class boundary lengths against the reference.
func ZZ_C08_Sized() {
	n := zzverif.Param("LEN")
	raw := zzverif.BytesSparse(n, 4)
	var v zzVal
	if zzverif.Param("T") == 0 {
		v = zzVal{kind: zzBytes, raw: raw}
	} else {
		v = zzVal{kind: zzString, str: string(raw)}
	}
	w := New(false)
	zzverif.Assert(v.write(w.Value()) == nil, "write-ok")
	out, err := w.Value().Build()
	zzverif.Assert(err == nil, "build-ok")
	ref := refScalar(nil, v)
	zzverif.Assert(len(out) == len(ref), "layout-length")
	// compare the size/type trailer and the ends of the payload byte by byte
	k := 12
	if k > len(ref) {
		k = len(ref)
	}
	zzverif.Assert(string(out[len(out)-k:]) == string(ref[len(ref)-k:]), "layout-trailer")
	zzverif.Assert(string(out[:k]) == string(ref[:k]), "layout-head")
	zzverif.Reach("done")
}

// ZZ_C08_MsgTableLayout: the table layer against the reference on arbitrary contents: N fields with
// strictly increasing symbolic 16-bit tags and symbolic 32-bit end offsets. Decides "big form
// exactly when a tag exceeds 255 or an offset exceeds 65535" for all tags/offsets.
func ZZ_C08_MsgTableLayout() {
	n := zzverif.Param("N")
	table := make([]format.MessageField, n)
	for i := range table {
		table[i] = format.MessageField{Tag: zzverif.Uint16(), Offset: zzverif.Uint32()}
		if i > 0 {
			zzverif.Assume(table[i-1].Tag < table[i].Tag)
		}
	}
	dataSize := zzverif.Uint32()
	zzverif.Assume(dataSize <= format.MaxSize)
	buf := buffer.New()
	_, err := encode.EncodeMessageTable(buf, int(dataSize), table)
	zzverif.Assert(err == nil, "encode-ok")
	// reference
	big := false
	for i := range table {
		if table[i].Tag > 255 || table[i].Offset > 65535 {
			big = true
		}
	}
	var ref []byte
	for i := range table {
		if big {
			ref = refBE(ref, uint64(table[i].Tag), 2)
			ref = refBE(ref, uint64(table[i].Offset), 4)
		} else {
			ref = append(ref, byte(table[i].Tag))
			ref = refBE(ref, uint64(table[i].Offset), 2)
		}
	}
	tsz := len(ref)
	ref = refVarint(ref, uint64(dataSize))
	ref = refVarint(ref, uint64(tsz))
	if big {
		ref = append(ref, 81)
	} else {
		ref = append(ref, 80)
	}
	out := buf.Bytes()
	zzverif.Assert(len(out) == len(ref), "table-layout-length")
	zzverif.Assert(string(out) == string(ref), "table-layout-bytes")
	// the library reads the reference table identically (needs dataSize bytes of body in front)
	zzverif.Assume(dataSize <= 2)
	b := append(make([]byte, dataSize), ref...)
	t, size, err := decode.DecodeMessageTable(b)
	zzverif.Assert(err == nil && size == len(b) && t.Len() == n, "library-decodes-reference-table")
	for i := range table {
		zzverif.Assert(t.Offset(table[i].Tag) == int(table[i].Offset), "library-finds-reference-field")
	}
	other := zzverif.Uint16()
	for i := range table {
		zzverif.Assume(other != table[i].Tag)
	}
	zzverif.Assert(t.Offset(other) == -1, "library-absent-in-reference")
	zzverif.Reach("done")
}

// ZZ_C08_ListTableLayout: list tables against the reference: N symbolic non-decreasing offsets;
// big form exactly when N > 255 or the last offset exceeds 65535.
func ZZ_C08_ListTableLayout() {
	n := zzverif.Param("N")
	table := make([]format.ListElement, n)
	for i := range table {
		if n > 8 {
			table[i] = format.ListElement{Offset: uint32(i * 2)} // large counts: concrete offsets
		} else {
			table[i] = format.ListElement{Offset: zzverif.Uint32()}
			if i > 0 {
				zzverif.Assume(table[i-1].Offset <= table[i].Offset)
			}
		}
	}
	dataSize := zzverif.Uint32()
	zzverif.Assume(dataSize <= format.MaxSize)
	buf := buffer.New()
	_, err := encode.EncodeListTable(buf, int(dataSize), table)
	zzverif.Assert(err == nil, "encode-ok")
	big := n > 255 || (n > 0 && table[n-1].Offset > 65535)
	var ref []byte
	for i := range table {
		if big {
			ref = refBE(ref, uint64(table[i].Offset), 4)
		} else {
			ref = refBE(ref, uint64(table[i].Offset), 2)
		}
	}
	tsz := len(ref)
	ref = refVarint(ref, uint64(dataSize))
	ref = refVarint(ref, uint64(tsz))
	if big {
		ref = append(ref, 71)
	} else {
		ref = append(ref, 70)
	}
	out := buf.Bytes()
	zzverif.Assert(len(out) == len(ref), "list-table-layout-length")
	zzverif.Assert(string(out) == string(ref), "list-table-layout-bytes")
	zzverif.Reach("done")
}

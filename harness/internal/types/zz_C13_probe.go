package types

import (
	"github.com/basecomplextech/spec/internal/decode"
	"github.com/basecomplextech/spec/internal/format"
	"github.com/basecomplextech/spec/internal/zzverif"
)

// ZZ_C13_ProbeAgrees: if the recursive parser accepts b with size n, the type-and-size probe and the
// non-recursive open report the same type and n, and re-parsing the returned value gives the same result.
func ZZ_C13_ProbeAgrees() {
	b := zzverif.Bytes(zzverif.Param("L"))
	v, n, err := ParseValue(b)
	zzverif.Assume(err == nil)
	zzverif.Reach("accepted")
	zzverif.Assert(n >= 0 && n <= len(b), "parse-size-in-range")
	zzverif.Assert(len(v) == n, "parse-value-len")

	t, n2, err2 := decode.DecodeTypeSize(b)
	zzverif.Assert(err2 == nil, "probe-accepts")
	zzverif.Assert(n2 == n, "probe-size")
	zzverif.Assert(t == v.Type(), "probe-type")

	o := OpenValue(b)
	zzverif.Assert(len(o) == n, "open-size")

	v2, n3, err3 := ParseValue(v)
	zzverif.Assert(err3 == nil, "reparse-accepts")
	zzverif.Assert(n3 == n && len(v2) == n, "reparse-size")
	zzverif.Observe("n", n)

	// the accepted value can be read again through the typed accessor of its own type
	var rerr error
	switch v.Type() {
	case format.TypeTrue, format.TypeFalse:
		_, rerr = v.BoolErr()
	case format.TypeByte:
		_, rerr = v.ByteErr()
	case format.TypeInt16:
		_, rerr = v.Int16Err()
	case format.TypeInt32:
		_, rerr = v.Int32Err()
	case format.TypeInt64:
		_, rerr = v.Int64Err()
	case format.TypeUint16:
		_, rerr = v.Uint16Err()
	case format.TypeUint32:
		_, rerr = v.Uint32Err()
	case format.TypeUint64:
		_, rerr = v.Uint64Err()
	case format.TypeFloat32:
		_, rerr = v.Float32Err()
	case format.TypeFloat64:
		_, rerr = v.Float64Err()
	case format.TypeBin64:
		_, rerr = v.Bin64Err()
	case format.TypeBin128:
		_, rerr = v.Bin128Err()
	case format.TypeBin256:
		_, rerr = v.Bin256Err()
	case format.TypeBytes:
		_, rerr = v.BytesErr()
	case format.TypeString:
		_, rerr = v.StringErr()
	case format.TypeList, format.TypeBigList:
		_, rerr = v.ListErr()
	case format.TypeMessage, format.TypeBigMessage:
		_, rerr = v.MessageErr()
	case format.TypeStruct:
		_, _, rerr = decode.DecodeStruct(v)
	}
	zzverif.Assert(rerr == nil, "typed-reread")
}

// ZZ_C13_Reread: every nested field and element the parser visited can be read again without error.
func ZZ_C13_Reread() {
	b := zzverif.Bytes(zzverif.Param("L"))
	switch zzverif.Param("K") {
	case 0:
		m, _, err := ParseMessage(b)
		zzverif.Assume(err == nil)
		num := m.Fields()
		i := zzverif.Int()
		zzverif.Assume(i >= 0 && i < num)
		zzverif.Reach("field")
		raw := m.fieldAt(i)
		if len(raw) != 0 {
			_, _, err := ParseValue(raw)
			zzverif.Assert(err == nil, "field-reparse")
			v := m.FieldAt(i)
			zzverif.Assert(len(v) != 0, "fieldat-open")
			_, n2, err2 := decode.DecodeTypeSize(raw)
			zzverif.Assert(err2 == nil && n2 == len(v), "field-probe")
		}
	case 1:
		l, _, err := ParseList(b)
		zzverif.Assume(err == nil)
		num := l.Len()
		i := zzverif.Int()
		zzverif.Assume(i >= 0 && i < num)
		zzverif.Reach("field")
		raw := l.GetBytes(i)
		if len(raw) != 0 {
			_, _, err := ParseValue(raw)
			zzverif.Assert(err == nil, "elem-reparse")
			v := l.Get(i)
			_, n2, err2 := decode.DecodeTypeSize(v)
			zzverif.Assert(err2 == nil && n2 <= len(v), "elem-probe")
		}
	}
}

func zzPrefixed(v []byte) []byte {
	p := zzverif.Bytes(zzverif.Param("P"))
	pb := make([]byte, len(p)+len(v))
	copy(pb, p)
	copy(pb[len(p):], v)
	return pb
}

// ZZ_C13_LocalParse: ParseValue of an accepted value behind an arbitrary prefix gives the same result.
func ZZ_C13_LocalParse() {
	b := zzverif.Bytes(zzverif.Param("L"))
	v, n, err := ParseValue(b)
	zzverif.Assume(err == nil && n > 0)
	pb := zzPrefixed(v)
	zzverif.Reach("prefixed")
	v2, n2, err2 := ParseValue(pb)
	zzverif.Assert(err2 == nil, "prefixed-accepts")
	zzverif.Assert(n2 == n, "prefixed-size")
	zzverif.Assert(len(v2) == len(v), "prefixed-len")
	t, n3, err3 := decode.DecodeTypeSize(pb)
	zzverif.Assert(err3 == nil && n3 == n && t == v.Type(), "prefixed-probe")
}

// ZZ_C13_LocalDecode: every typed decoder returns the same value, size and error-ness for a value
// standing alone and for the same n bytes behind an arbitrary prefix. The value is delimited by
// the size probe (so wrongly typed reads, which must fail identically, are included).
func ZZ_C13_LocalDecode() {
	b := zzverif.Bytes(zzverif.Param("L"))
	_, n, err := decode.DecodeTypeSize(b)
	zzverif.Assume(err == nil && n > 0 && n <= len(b))
	v := b[len(b)-n:]
	pb := zzPrefixed(v)
	zzverif.Reach("prefixed")
	switch zzverif.Param("F") {
	case 0:
		x, n1, e1 := decode.DecodeBool(v)
		y, n2, e2 := decode.DecodeBool(pb)
		zzverif.Assert((e1 == nil) == (e2 == nil), "bool-err")
		zzverif.Assert(e1 != nil || (x == y && n1 == n2), "bool-val")
		x1, n1, e1 := decode.DecodeByte(v)
		y1, n2, e2 := decode.DecodeByte(pb)
		zzverif.Assert((e1 == nil) == (e2 == nil), "byte-err")
		zzverif.Assert(e1 != nil || (x1 == y1 && n1 == n2), "byte-val")
	case 1:
		x, n1, e1 := decode.DecodeInt16(v)
		y, n2, e2 := decode.DecodeInt16(pb)
		zzverif.Assert((e1 == nil) == (e2 == nil), "int16-err")
		zzverif.Assert(e1 != nil || (x == y && n1 == n2), "int16-val")
		x1, n1, e1 := decode.DecodeInt32(v)
		y1, n2, e2 := decode.DecodeInt32(pb)
		zzverif.Assert((e1 == nil) == (e2 == nil), "int32-err")
		zzverif.Assert(e1 != nil || (x1 == y1 && n1 == n2), "int32-val")
		x2, n1, e1 := decode.DecodeInt64(v)
		y2, n2, e2 := decode.DecodeInt64(pb)
		zzverif.Assert((e1 == nil) == (e2 == nil), "int64-err")
		zzverif.Assert(e1 != nil || (x2 == y2 && n1 == n2), "int64-val")
	case 2:
		x, n1, e1 := decode.DecodeUint16(v)
		y, n2, e2 := decode.DecodeUint16(pb)
		zzverif.Assert((e1 == nil) == (e2 == nil), "uint16-err")
		zzverif.Assert(e1 != nil || (x == y && n1 == n2), "uint16-val")
		x1, n1, e1 := decode.DecodeUint32(v)
		y1, n2, e2 := decode.DecodeUint32(pb)
		zzverif.Assert((e1 == nil) == (e2 == nil), "uint32-err")
		zzverif.Assert(e1 != nil || (x1 == y1 && n1 == n2), "uint32-val")
		x2, n1, e1 := decode.DecodeUint64(v)
		y2, n2, e2 := decode.DecodeUint64(pb)
		zzverif.Assert((e1 == nil) == (e2 == nil), "uint64-err")
		zzverif.Assert(e1 != nil || (x2 == y2 && n1 == n2), "uint64-val")
	case 3:
		x, n1, e1 := decode.DecodeFloat32(v)
		y, n2, e2 := decode.DecodeFloat32(pb)
		zzverif.Assert((e1 == nil) == (e2 == nil), "float32-err")
		zzverif.Assert(e1 != nil || ((x == y || (x != x && y != y)) && n1 == n2), "float32-val")
		x1, n1, e1 := decode.DecodeFloat64(v)
		y1, n2, e2 := decode.DecodeFloat64(pb)
		zzverif.Assert((e1 == nil) == (e2 == nil), "float64-err")
		zzverif.Assert(e1 != nil || ((x1 == y1 || (x1 != x1 && y1 != y1)) && n1 == n2), "float64-val")
	case 4:
		x, n1, e1 := decode.DecodeBin64(v)
		y, n2, e2 := decode.DecodeBin64(pb)
		zzverif.Assert((e1 == nil) == (e2 == nil), "bin64-err")
		zzverif.Assert(e1 != nil || (x == y && n1 == n2), "bin64-val")
		x1, n1, e1 := decode.DecodeBin128(v)
		y1, n2, e2 := decode.DecodeBin128(pb)
		zzverif.Assert((e1 == nil) == (e2 == nil), "bin128-err")
		zzverif.Assert(e1 != nil || (x1 == y1 && n1 == n2), "bin128-val")
	case 5:
		x, n1, e1 := decode.DecodeBytes(v)
		y, n2, e2 := decode.DecodeBytes(pb)
		zzverif.Assert((e1 == nil) == (e2 == nil), "bytes-err")
		zzverif.Assert(e1 != nil || (string(x) == string(y) && n1 == n2), "bytes-val")
		x1, n1, e1 := decode.DecodeString(v)
		y1, n2, e2 := decode.DecodeString(pb)
		zzverif.Assert((e1 == nil) == (e2 == nil), "string-err")
		zzverif.Assert(e1 != nil || (x1 == y1 && n1 == n2), "string-val")
	case 6:
		x, n1, e1 := decode.DecodeStruct(v)
		y, n2, e2 := decode.DecodeStruct(pb)
		zzverif.Assert((e1 == nil) == (e2 == nil), "struct-err")
		zzverif.Assert(e1 != nil || (x == y && n1 == n2), "struct-val")
	case 7:
		x, n1, e1 := decode.DecodeListTable(v)
		y, n2, e2 := decode.DecodeListTable(pb)
		zzverif.Assert((e1 == nil) == (e2 == nil), "list-err")
		zzverif.Assert(e1 != nil || (x.Len() == y.Len() && x.DataSize() == y.DataSize() && n1 == n2), "list-val")
	case 8:
		x, n1, e1 := decode.DecodeMessageTable(v)
		y, n2, e2 := decode.DecodeMessageTable(pb)
		zzverif.Assert((e1 == nil) == (e2 == nil), "msg-err")
		zzverif.Assert(e1 != nil || (x.Len() == y.Len() && x.DataSize() == y.DataSize() && n1 == n2), "msg-val")
	}
}

// ZZ_C13_HeaderAgrees: the sized decoders (list table, message table, struct, bytes, string) against
// the probe, on arbitrary headers up to the widest size fields (two 5-byte sizes): whenever the
// decoder accepts with size n, n lies inside the input, the probe accepts with the same n, and the
// decision and n do not depend on one more byte in front of the value.
func ZZ_C13_HeaderAgrees() {
	b := zzverif.Bytes(zzverif.Param("L"))
	dec := func(x []byte) (int, error) {
		switch zzverif.Param("F") {
		case 0:
			_, n, err := decode.DecodeListTable(x)
			return n, err
		case 1:
			_, n, err := decode.DecodeMessageTable(x)
			return n, err
		case 2:
			_, n, err := decode.DecodeStruct(x)
			return n, err
		case 3:
			_, n, err := decode.DecodeBytes(x)
			return n, err
		}
		_, n, err := decode.DecodeString(x)
		return n, err
	}
	n, err := dec(b)
	zzverif.Assume(err == nil)
	zzverif.Reach("accepted")
	zzverif.Assert(n >= 0 && n <= len(b), "decoder-size-in-range")
	_, n2, err2 := decode.DecodeTypeSize(b)
	zzverif.Assert(err2 == nil, "probe-accepts")
	zzverif.Assert(n2 == n, "probe-size")
	if n > 0 { // (an empty input is "no value": nothing to put a prefix in front of)
		pb := append([]byte{zzverif.Byte()}, b...)
		n3, err3 := dec(pb)
		zzverif.Assert(err3 == nil && n3 == n, "prefixed-decoder")
	}
}

// ZZ_C13_TwoFields: a small-form message with a concrete header over D symbolic data bytes and two
// symbolic table entries (any tags; offsets ascending, equal, descending or out of range, i.e. also
// fields written out of tag order). Whatever the recursive parser accepts, each of the two fields it
// lists must itself re-parse, open and probe with the same size. The concrete header buys three more
// bytes of data than the fully symbolic ZZ_C13_Reread reaches (added after seed C13-r4m2, whose smallest
// witness is a 12-byte message; the fully symbolic kernels stop at 9).
func ZZ_C13_TwoFields() {
	d := zzverif.Param("D")
	data := zzverif.Bytes(d)
	tab := zzverif.Bytes(2 * format.MessageFieldSize_Small)
	b := make([]byte, d+9)
	copy(b, data)
	copy(b[d:], tab)
	b[d+6] = byte(d)
	b[d+7] = 2 * format.MessageFieldSize_Small
	b[d+8] = byte(format.TypeMessage)

	m, n, err := ParseMessage(b)
	zzverif.Assume(err == nil)
	zzverif.Assert(n == len(b), "two-fields-size")
	zzverif.Assert(m.Fields() == 2, "two-fields-count")
	i := zzverif.Param("I")
	raw := m.fieldAt(i)
	if len(raw) != 0 {
		zzverif.Reach("field")
		_, _, err := ParseValue(raw)
		zzverif.Assert(err == nil, "field-reparse")
		v := m.FieldAt(i)
		zzverif.Assert(len(v) != 0, "fieldat-open")
		_, n2, err2 := decode.DecodeTypeSize(raw)
		zzverif.Assert(err2 == nil && n2 == len(v), "field-probe")
	}
}

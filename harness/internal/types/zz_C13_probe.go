package types

import (
	"github.com/basecomplextech/spec/internal/decode"
	"github.com/basecomplextech/spec/internal/zzverif"
)

// ZZ_C13_ProbeAgrees: if the recursive parser accepts b with size n, the type-and-size probe and the
// non-recursive open report the same type and n, and re-parsing the returned value gives the same result.
func ZZ_C13_ProbeAgrees() {
	b := zzverif.Bytes(zzverif.Param("L"))
	v, n, err := ParseValue(b)
	zzverif.Assume(err == nil)
	zzverif.Reach("accepted")
	zzverif.Assert(n >= 0 && n <= len(b), "parse-size-in-range")
	zzverif.Assert(len(v) == n, "parse-value-len")

	t, n2, err2 := decode.DecodeTypeSize(b)
	zzverif.Assert(err2 == nil, "probe-accepts")
	zzverif.Assert(n2 == n, "probe-size")
	zzverif.Assert(t == v.Type(), "probe-type")

	o := OpenValue(b)
	zzverif.Assert(len(o) == n, "open-size")

	v2, n3, err3 := ParseValue(v)
	zzverif.Assert(err3 == nil, "reparse-accepts")
	zzverif.Assert(n3 == n && len(v2) == n, "reparse-size")
	zzverif.Observe("n", n)
}

package types

import (
	"github.com/basecomplextech/spec/internal/decode"
	"github.com/basecomplextech/spec/internal/zzverif"
)

// C02: for every byte string every public read entry point returns normally (no panic path is
// feasible), reports 0 <= n <= len(input) on success and only returns data lying inside the input.
// The input is fully symbolic; its length is case-split by the driver (param L).

func zzC02size(n int, err error, b []byte) {
	if err == nil {
		zzverif.Assert(n >= 0 && n <= len(b), "size-in-range")
	}
}

// ZZ_C02_Flat: every exported decoder of internal/decode (param F selects the function).
func ZZ_C02_Flat() {
	b := zzverif.Bytes(zzverif.Param("L"))
	switch zzverif.Param("F") {
	case 0:
		_, n, err := decode.DecodeType(b)
		zzC02size(n, err, b)
	case 1:
		_, n, err := decode.DecodeTypeSize(b)
		zzC02size(n, err, b)
	case 2:
		_, n, err := decode.DecodeBool(b)
		zzC02size(n, err, b)
	case 3:
		_, n, err := decode.DecodeByte(b)
		zzC02size(n, err, b)
	case 4:
		_, n, err := decode.DecodeInt16(b)
		zzC02size(n, err, b)
	case 5:
		_, n, err := decode.DecodeInt32(b)
		zzC02size(n, err, b)
	case 6:
		_, n, err := decode.DecodeInt64(b)
		zzC02size(n, err, b)
	case 7:
		_, n, err := decode.DecodeUint16(b)
		zzC02size(n, err, b)
	case 8:
		_, n, err := decode.DecodeUint32(b)
		zzC02size(n, err, b)
	case 9:
		_, n, err := decode.DecodeUint64(b)
		zzC02size(n, err, b)
	case 10:
		_, n, err := decode.DecodeFloat32(b)
		zzC02size(n, err, b)
	case 11:
		_, n, err := decode.DecodeFloat64(b)
		zzC02size(n, err, b)
	case 12:
		_, n, err := decode.DecodeBin64(b)
		zzC02size(n, err, b)
	case 13:
		_, n, err := decode.DecodeBin128(b)
		zzC02size(n, err, b)
	case 14:
		_, n, err := decode.DecodeBin256(b)
		zzC02size(n, err, b)
	case 15:
		p, n, err := decode.DecodeBytes(b)
		zzC02size(n, err, b)
		zzverif.Assert(zzverif.Within(p, b), "bytes-inside-input")
		if err == nil {
			zzverif.Assert(len(p) <= n, "bytes-len-le-size")
		}
	case 16:
		s, n, err := decode.DecodeString(b)
		zzC02size(n, err, b)
		zzverif.Assert(zzverif.WithinStr(string(s), b), "string-inside-input")
		if err == nil {
			zzverif.Assert(len(s) <= n, "string-len-le-size")
		}
	case 17:
		_, n, err := decode.DecodeStringClone(b)
		zzC02size(n, err, b)
	case 18:
		ds, n, err := decode.DecodeStruct(b)
		zzC02size(n, err, b)
		if err == nil {
			zzverif.Assert(ds >= 0 && ds <= n, "struct-datasize-in-range")
		}
	case 19:
		t, n, err := decode.DecodeListTable(b)
		zzC02size(n, err, b)
		if err == nil {
			zzverif.Assert(t.Len() >= 0 && t.Len() <= len(b), "list-count-in-range")
		}
	case 20:
		t, n, err := decode.DecodeMessageTable(b)
		zzC02size(n, err, b)
		if err == nil {
			zzverif.Assert(t.Len() >= 0 && t.Len() <= len(b), "msg-count-in-range")
		}
	default:
		zzverif.Unsupported("bad F")
	}
	zzverif.Reach("returned")
}

// ZZ_C02_Parse: the recursive parsers and the non-recursive opens.
func ZZ_C02_Parse() {
	b := zzverif.Bytes(zzverif.Param("L"))
	switch zzverif.Param("F") {
	case 0:
		v, n, err := ParseValue(b)
		zzC02size(n, err, b)
		zzverif.Assert(zzverif.Within(v, b), "value-inside-input")
	case 1:
		m, n, err := ParseMessage(b)
		zzC02size(n, err, b)
		zzverif.Assert(zzverif.Within(m.Raw(), b), "message-inside-input")
	case 2:
		l, n, err := ParseList(b)
		zzC02size(n, err, b)
		zzverif.Assert(zzverif.Within(l.Raw(), b), "list-inside-input")
	case 3:
		v := OpenValue(b)
		zzverif.Assert(zzverif.Within(v, b), "openvalue-inside-input")
		v2, _ := OpenValueErr(b)
		zzverif.Assert(zzverif.Within(v2, b), "openvalueerr-inside-input")
	case 4:
		m := OpenMessage(b)
		zzverif.Assert(zzverif.Within(m.Raw(), b), "openmessage-inside-input")
		m2, _ := OpenMessageErr(b)
		zzverif.Assert(zzverif.Within(m2.Raw(), b), "openmessageerr-inside-input")
	case 5:
		l := OpenList(b)
		zzverif.Assert(zzverif.Within(l.Raw(), b), "openlist-inside-input")
		l2, _ := OpenListErr(b)
		zzverif.Assert(zzverif.Within(l2.Raw(), b), "openlisterr-inside-input")
	default:
		zzverif.Unsupported("bad F")
	}
	zzverif.Reach("returned")
}

// ZZ_C02_MsgAccess: open (not parse: hostile tables must be survivable) a message from arbitrary
// bytes and call every accessor with an arbitrary tag / index.
func ZZ_C02_MsgAccess() {
	b := zzverif.Bytes(zzverif.Param("L"))
	m := OpenMessage(b)
	tag := zzverif.Uint16()
	i := zzverif.Int()
	zzverif.Assume(i >= -1 && i <= len(b)+1)
	switch zzverif.Param("A") {
	case 0:
		_ = m.Empty()
		_ = m.Len()
		_ = m.Fields()
		_ = m.HasField(tag)
		v := m.Field(tag)
		zzverif.Assert(zzverif.Within(v, b), "field-inside-input")
		r := m.FieldRaw(tag)
		zzverif.Assert(zzverif.Within(r, b), "fieldraw-inside-input")
	case 1:
		v := m.FieldAt(i)
		zzverif.Assert(zzverif.Within(v, b), "fieldat-inside-input")
		_, _ = m.TagAt(i)
	case 2:
		_ = m.Bool(tag)
		_ = m.Byte(tag)
		_ = m.Int16(tag)
		_ = m.Int32(tag)
		_ = m.Int64(tag)
		_ = m.Uint16(tag)
		_ = m.Uint32(tag)
		_ = m.Uint64(tag)
	case 3:
		_ = m.Float32(tag)
		_ = m.Float64(tag)
		_ = m.Bin64(tag)
		_ = m.Bin128(tag)
		_ = m.Bin256(tag)
	case 4:
		p := m.Bytes(tag)
		zzverif.Assert(zzverif.Within(p, b), "msg-bytes-inside-input")
		s := m.String(tag)
		zzverif.Assert(zzverif.WithinStr(string(s), b), "msg-string-inside-input")
	case 5:
		l := m.List(tag)
		zzverif.Assert(zzverif.Within(l.Raw(), b), "msg-list-inside-input")
		mm := m.Message(tag)
		zzverif.Assert(zzverif.Within(mm.Raw(), b), "msg-message-inside-input")
	case 6:
		c := m.Clone()
		zzverif.Assert(c.Len() == m.Len() || c.Len() == 0, "clone-len")
		c2 := m.CloneTo(make([]byte, 3))
		zzverif.Assert(c2.Len() == c.Len(), "cloneto-len")
	case 7: // the error-returning accessors
		_, _ = m.BoolErr(tag)
		_, _ = m.ByteErr(tag)
		_, _ = m.Int16Err(tag)
		_, _ = m.Int32Err(tag)
		_, _ = m.Int64Err(tag)
		_, _ = m.Uint16Err(tag)
		_, _ = m.Uint32Err(tag)
		_, _ = m.Uint64Err(tag)
	case 8:
		_, _ = m.Float32Err(tag)
		_, _ = m.Float64Err(tag)
		_, _ = m.Bin64Err(tag)
		_, _ = m.Bin128Err(tag)
		_, _ = m.Bin256Err(tag)
	case 9:
		p, err := m.BytesErr(tag)
		zzverif.Assert(err != nil || zzverif.Within(p, b), "msg-byteserr-inside-input")
		sv, err := m.StringErr(tag)
		zzverif.Assert(err != nil || zzverif.WithinStr(string(sv), b), "msg-stringerr-inside-input")
		l, err := m.ListErr(tag)
		zzverif.Assert(err != nil || zzverif.Within(l.Raw(), b), "msg-listerr-inside-input")
		mm, err := m.MessageErr(tag)
		zzverif.Assert(err != nil || zzverif.Within(mm.Raw(), b), "msg-messageerr-inside-input")
	default:
		zzverif.Unsupported("bad A")
	}
	zzverif.Reach("returned")
}

// ZZ_C02_ListAccess: open a list from arbitrary bytes and read an element at an index inside
// [0,Len) (an out-of-range index panics by documented contract) through every accessor.
func ZZ_C02_ListAccess() {
	b := zzverif.Bytes(zzverif.Param("L"))
	l := OpenList(b)
	n := l.Len()
	zzverif.Assert(n >= 0 && n <= len(b), "list-len-in-range")
	_ = l.Empty()
	i := zzverif.Int()
	zzverif.Assume(i >= 0 && i < n)
	zzverif.Reach("has-element")
	switch zzverif.Param("A") {
	case 0:
		v := l.Get(i)
		zzverif.Assert(zzverif.Within(v, b), "get-inside-input")
		p := l.GetBytes(i)
		zzverif.Assert(zzverif.Within(p, b), "getbytes-inside-input")
	case 1:
		v := l.Get(i)
		_ = v.Type()
		_ = v.Bool()
		_ = v.Byte()
		_ = v.Int16()
		_ = v.Int32()
		_ = v.Int64()
		_ = v.Uint16()
		_ = v.Uint32()
		_ = v.Uint64()
	case 2:
		v := l.Get(i)
		_ = v.Float32()
		_ = v.Float64()
		_ = v.Bin64()
		_ = v.Bin128()
		_ = v.Bin256()
	case 3:
		v := l.Get(i)
		p := v.Bytes()
		zzverif.Assert(zzverif.Within(p, b), "elem-bytes-inside-input")
		s := v.String()
		zzverif.Assert(zzverif.WithinStr(string(s), b), "elem-string-inside-input")
		ll := v.List()
		zzverif.Assert(zzverif.Within(ll.Raw(), b), "elem-list-inside-input")
		mm := v.Message()
		zzverif.Assert(zzverif.Within(mm.Raw(), b), "elem-message-inside-input")
	case 4:
		c := l.Clone()
		zzverif.Assert(c.Len() == n || c.Len() == 0, "clone-len")
	default:
		zzverif.Unsupported("bad A")
	}
	zzverif.Reach("returned")
}

package types

import (
	"math"

	"github.com/basecomplextech/baselibrary/bin"
	"github.com/basecomplextech/baselibrary/buffer"
	"github.com/basecomplextech/spec/internal/decode"
	"github.com/basecomplextech/spec/internal/encode"
	"github.com/basecomplextech/spec/internal/zzverif"
)

// C10: each scalar encoder and its decoder are exact inverses over the whole domain, and the size
// the encoder reports equals the bytes appended and the size the decoder reports. Values are fully
// symbolic (full width). The value is encoded behind an arbitrary 3-byte prefix in the buffer.

func zzC10buf() (buffer.Buffer, int) {
	buf := buffer.New()
	p := zzverif.Bytes(3)
	buf.Write(p)
	return buf, 3
}

func zzC10sizes(buf buffer.Buffer, before, n, dn int, err, derr error) {
	zzverif.Assert(err == nil, "encode-ok")
	zzverif.Assert(derr == nil, "decode-ok")
	zzverif.Assert(buf.Len()-before == n, "size-equals-appended")
	zzverif.Assert(dn == n, "size-equals-decoded")
	zzverif.Observe("n", n)
}

func ZZ_C10_RoundTrip() {
	buf, before := zzC10buf()
	switch zzverif.Param("T") {
	case 0:
		v := zzverif.Bool()
		n, err := encode.EncodeBool(buf, v)
		r, dn, derr := decode.DecodeBool(buf.Bytes())
		zzC10sizes(buf, before, n, dn, err, derr)
		zzverif.Assert(r == v, "value")
	case 1:
		v := zzverif.Byte()
		n, err := encode.EncodeByte(buf, v)
		r, dn, derr := decode.DecodeByte(buf.Bytes())
		zzC10sizes(buf, before, n, dn, err, derr)
		zzverif.Assert(r == v, "value")
	case 2:
		v := zzverif.Int16()
		n, err := encode.EncodeInt16(buf, v)
		r, dn, derr := decode.DecodeInt16(buf.Bytes())
		zzC10sizes(buf, before, n, dn, err, derr)
		zzverif.Assert(r == v, "value")
	case 3:
		v := zzverif.Int32()
		n, err := encode.EncodeInt32(buf, v)
		r, dn, derr := decode.DecodeInt32(buf.Bytes())
		zzC10sizes(buf, before, n, dn, err, derr)
		zzverif.Assert(r == v, "value")
	case 4:
		v := zzverif.Int64()
		n, err := encode.EncodeInt64(buf, v)
		r, dn, derr := decode.DecodeInt64(buf.Bytes())
		zzC10sizes(buf, before, n, dn, err, derr)
		zzverif.Assert(r == v, "value")
	case 5:
		v := zzverif.Uint16()
		n, err := encode.EncodeUint16(buf, v)
		r, dn, derr := decode.DecodeUint16(buf.Bytes())
		zzC10sizes(buf, before, n, dn, err, derr)
		zzverif.Assert(r == v, "value")
	case 6:
		v := zzverif.Uint32()
		n, err := encode.EncodeUint32(buf, v)
		r, dn, derr := decode.DecodeUint32(buf.Bytes())
		zzC10sizes(buf, before, n, dn, err, derr)
		zzverif.Assert(r == v, "value")
	case 7:
		v := zzverif.Uint64()
		n, err := encode.EncodeUint64(buf, v)
		r, dn, derr := decode.DecodeUint64(buf.Bytes())
		zzC10sizes(buf, before, n, dn, err, derr)
		zzverif.Assert(r == v, "value")
	case 8:
		v := zzverif.Float32()
		n, err := encode.EncodeFloat32(buf, v)
		r, dn, derr := decode.DecodeFloat32(buf.Bytes())
		zzC10sizes(buf, before, n, dn, err, derr)
		zzverif.Assert(math.Float32bits(r) == math.Float32bits(v) || (r != r && v != v), "value")
	case 9:
		v := zzverif.Float64()
		n, err := encode.EncodeFloat64(buf, v)
		r, dn, derr := decode.DecodeFloat64(buf.Bytes())
		zzC10sizes(buf, before, n, dn, err, derr)
		zzverif.Assert(math.Float64bits(r) == math.Float64bits(v) || (r != r && v != v), "value")
	case 10:
		var v bin.Bin64
		copy(v[:], zzverif.Bytes(8))
		n, err := encode.EncodeBin64(buf, v)
		r, dn, derr := decode.DecodeBin64(buf.Bytes())
		zzC10sizes(buf, before, n, dn, err, derr)
		zzverif.Assert(r == v, "value")
	case 11:
		var v bin.Bin128
		copy(v[0][:], zzverif.Bytes(8))
		copy(v[1][:], zzverif.Bytes(8))
		n, err := encode.EncodeBin128(buf, v)
		r, dn, derr := decode.DecodeBin128(buf.Bytes())
		zzC10sizes(buf, before, n, dn, err, derr)
		zzverif.Assert(r == v, "value")
	case 12:
		var v bin.Bin256
		copy(v[0][:], zzverif.Bytes(8))
		copy(v[1][:], zzverif.Bytes(8))
		copy(v[2][:], zzverif.Bytes(8))
		copy(v[3][:], zzverif.Bytes(8))
		n, err := encode.EncodeBin256(buf, v)
		r, dn, derr := decode.DecodeBin256(buf.Bytes())
		zzC10sizes(buf, before, n, dn, err, derr)
		zzverif.Assert(r == v, "value")
	default:
		zzverif.Unsupported("bad T")
	}
	zzverif.Reach("done")
}

// ZZ_C10_Bytes: byte strings and strings of the boundary lengths (param N); contents symbolic in
// the first and last 16 bytes (fully symbolic up to 32 bytes).
func ZZ_C10_Bytes() {
	buf, before := zzC10buf()
	n0 := zzverif.Param("N")
	v := zzverif.BytesSparse(n0, 16)
	switch zzverif.Param("T") {
	case 0:
		n, err := encode.EncodeBytes(buf, v)
		r, dn, derr := decode.DecodeBytes(buf.Bytes())
		zzC10sizes(buf, before, n, dn, err, derr)
		zzverif.Assert(len(r) == len(v), "len")
		zzverif.Assert(string(r) == string(v), "value")
		t, pn, perr := decode.DecodeTypeSize(buf.Bytes())
		zzverif.Assert(perr == nil && pn == n && t == Value(buf.Bytes()).Type(), "probe")
	case 1:
		s := string(v)
		n, err := encode.EncodeString(buf, s)
		r, dn, derr := decode.DecodeString(buf.Bytes())
		zzC10sizes(buf, before, n, dn, err, derr)
		zzverif.Assert(len(r) == len(s), "len")
		zzverif.Assert(string(r) == s, "value")
		_, pn, perr := decode.DecodeTypeSize(buf.Bytes())
		zzverif.Assert(perr == nil && pn == n, "probe")
	case 2:
		n, err := encode.EncodeStruct(buf, n0)
		ds, dn, derr := decode.DecodeStruct(append(make([]byte, n0), buf.Bytes()...))
		zzverif.Assert(err == nil && derr == nil, "struct-ok")
		zzverif.Assert(ds == n0 && dn == n+n0, "struct-sizes")
		zzverif.Assert(buf.Len()-before == n, "size-equals-appended")
	}
	zzverif.Reach("done")
}

// ZZ_C10_CrossWidth: a stored integer/float read through an accessor of another width of the same
// family returns the same numeric value when representable and an error otherwise - never a wrapped
// or truncated value. S = stored kind, R = read kind (0:16 1:32 2:64 bit).
func ZZ_C10_CrossWidth() {
	buf := buffer.New()
	fam, s, r := zzverif.Param("FAM"), zzverif.Param("S"), zzverif.Param("R")
	switch fam {
	case 0: // signed
		var v int64
		switch s {
		case 0:
			x := zzverif.Int16()
			v = int64(x)
			encode.EncodeInt16(buf, x)
		case 1:
			x := zzverif.Int32()
			v = int64(x)
			encode.EncodeInt32(buf, x)
		case 2:
			v = zzverif.Int64()
			encode.EncodeInt64(buf, v)
		}
		b := buf.Bytes()
		switch r {
		case 0:
			got, _, err := decode.DecodeInt16(b)
			fits := v >= math.MinInt16 && v <= math.MaxInt16
			zzverif.Assert((err == nil) == fits, "int16-error-iff-overflow")
			zzverif.Assert(err != nil || int64(got) == v, "int16-value")
		case 1:
			got, _, err := decode.DecodeInt32(b)
			fits := v >= math.MinInt32 && v <= math.MaxInt32
			zzverif.Assert((err == nil) == fits, "int32-error-iff-overflow")
			zzverif.Assert(err != nil || int64(got) == v, "int32-value")
		case 2:
			got, _, err := decode.DecodeInt64(b)
			zzverif.Assert(err == nil && got == v, "int64-value")
		}
	case 1: // unsigned
		var v uint64
		switch s {
		case 0:
			x := zzverif.Uint16()
			v = uint64(x)
			encode.EncodeUint16(buf, x)
		case 1:
			x := zzverif.Uint32()
			v = uint64(x)
			encode.EncodeUint32(buf, x)
		case 2:
			v = zzverif.Uint64()
			encode.EncodeUint64(buf, v)
		}
		b := buf.Bytes()
		switch r {
		case 0:
			got, _, err := decode.DecodeUint16(b)
			fits := v <= math.MaxUint16
			zzverif.Assert((err == nil) == fits, "uint16-error-iff-overflow")
			zzverif.Assert(err != nil || uint64(got) == v, "uint16-value")
		case 1:
			got, _, err := decode.DecodeUint32(b)
			fits := v <= math.MaxUint32
			zzverif.Assert((err == nil) == fits, "uint32-error-iff-overflow")
			zzverif.Assert(err != nil || uint64(got) == v, "uint32-value")
		case 2:
			got, _, err := decode.DecodeUint64(b)
			zzverif.Assert(err == nil && got == v, "uint64-value")
		}
	case 2: // float: S,R in {1:32, 2:64}
		switch {
		case s == 1 && r == 2:
			x := zzverif.Float32()
			encode.EncodeFloat32(buf, x)
			got, _, err := decode.DecodeFloat64(buf.Bytes())
			zzverif.Assert(err == nil, "f32-as-f64-ok")
			zzverif.Assert(got == float64(x) || (x != x && got != got), "f32-as-f64-value")
		case s == 2 && r == 1:
			x := zzverif.Float64()
			encode.EncodeFloat64(buf, x)
			got, _, err := decode.DecodeFloat32(buf.Bytes())
			isNaN := x != x
			isInf := x > math.MaxFloat64 || x < -math.MaxFloat64
			exact := float64(float32(x)) == x // exactly representable (includes +-0, +-Inf)
			tooBig := !isNaN && !isInf && (x > math.MaxFloat32 || x < -math.MaxFloat32)
			if isNaN {
				zzverif.Assert(err == nil && got != got, "f64nan-as-f32")
			}
			if isInf {
				zzverif.Assert(err == nil && float64(got) == x, "f64inf-as-f32")
			}
			if exact && !isInf {
				zzverif.Assert(err == nil && float64(got) == x, "f64exact-as-f32")
			}
			if tooBig {
				zzverif.Assert(err != nil, "f64-overflow-as-f32-is-error")
			}
		default:
			zzverif.Unsupported("float pair")
		}
	}
	zzverif.Reach("done")
}

// Package zzverif is the nondeterminism / assertion API used by the verification harnesses.
//
// It has two implementations of the same API:
//   - inside the symbolic executor (gosx) every call to a function of this package is intercepted
//     and yields fresh SMT constants, path constraints and verdict queries;
//   - natively (this file) the calls consume the entries of a replay script that gosx wrote from a
//     solver model, so that the very same harness, fakes and real code run concretely.
//
// This file is injected into /repo's module as an overlay (nothing is written to /repo).
package zzverif

import (
	"encoding/hex"
	"encoding/json"
	"fmt"
	"math"
	"os"
	"strconv"
	"runtime/debug"
	"strings"
	"syscall"
	"unsafe"
)

type entry struct {
	K string `json:"k"`           // kind
	V string `json:"v,omitempty"` // decimal value (scalars) or hex (bytes)
	N int    `json:"n,omitempty"` // length for bytes / bound for choice
}

// Script is a replay script written by gosx.
type Script struct {
	Harness string         `json:"harness"`
	Params  map[string]int `json:"params"`
	Draws   []entry        `json:"draws"`
	Expect  string         `json:"expect"` // predicted outcome
	Obs     []string       `json:"obs"`    // predicted observations
}

type mismatch struct{ msg string }
type assertFail struct{ label string }
type assumeFail struct{}

var (
	cur  *Script
	pos  int
	obs  []string
	lens map[string]bool
)

// Run executes fn under the given script and returns (outcome, observations).
func Run(path string, fn func()) (outcome string, observed []string) {
	data, err := os.ReadFile(path)
	if err != nil {
		return "script-error:" + err.Error(), nil
	}
	s := &Script{}
	if err := json.Unmarshal(data, s); err != nil {
		return "script-error:" + err.Error(), nil
	}
	return RunScript(s, fn)
}

func RunScript(s *Script, fn func()) (outcome string, observed []string) {
	cur, pos, obs = s, 0, nil
	debug.SetPanicOnFault(true)
	defer func() {
		observed = obs
		if r := recover(); r != nil {
			switch v := r.(type) {
			case mismatch:
				outcome = "mismatch:" + v.msg
			case assertFail:
				outcome = "assert:" + v.label
			case assumeFail:
				outcome = "assume-failed"
			default:
				outcome = "panic:" + strings.SplitN(fmt.Sprint(r), "\n", 2)[0]
			}
		}
		cur = nil
	}()
	fn()
	return "ok", obs
}

func next(kind string) entry {
	if cur == nil {
		panic(mismatch{"no script"})
	}
	if pos >= len(cur.Draws) {
		panic(mismatch{fmt.Sprintf("script exhausted at draw %d (%s)", pos, kind)})
	}
	e := cur.Draws[pos]
	if e.K != kind {
		panic(mismatch{fmt.Sprintf("draw %d: script has %s, code asks %s", pos, e.K, kind)})
	}
	pos++
	return e
}

func u(kind string) uint64 {
	e := next(kind)
	v, err := strconv.ParseUint(e.V, 10, 64)
	if err != nil {
		panic(mismatch{"bad value " + e.V})
	}
	return v
}

func Param(name string) int {
	if cur == nil {
		panic(mismatch{"no script"})
	}
	v, ok := cur.Params[name]
	if !ok {
		panic(mismatch{"no param " + name})
	}
	return v
}

func Bool() bool       { return u("bool") != 0 }
func Byte() byte       { return byte(u("u8")) }
func Uint8() uint8     { return uint8(u("u8")) }
func Uint16() uint16   { return uint16(u("u16")) }
func Uint32() uint32   { return uint32(u("u32")) }
func Uint64() uint64   { return u("u64") }
func Int8() int8       { return int8(u("u8")) }
func Int16() int16     { return int16(u("u16")) }
func Int32() int32     { return int32(u("u32")) }
func Int64() int64     { return int64(u("u64")) }
func Int() int         { return int(u("u64")) }
func Float32() float32 { return math.Float32frombits(uint32(u("u32"))) }
func Float64() float64 { return math.Float64frombits(u("u64")) }

// Choice returns a value in [0,n).
func Choice(n int) int {
	v := int(u("u64"))
	if v < 0 || v >= n {
		panic(assumeFail{})
	}
	return v
}

// Bytes returns a fresh byte slice of length n (n concrete in the engine) with arbitrary contents.
// cap == len, as if freshly allocated.
func Bytes(n int) []byte {
	e := next("bytes")
	b, err := hex.DecodeString(e.V)
	if err != nil || len(b) != n {
		panic(mismatch{fmt.Sprintf("bytes: script has %d bytes, code asks %d", len(b), n)})
	}
	out := guarded(n)
	copy(out, b)
	return out
}

// guarded returns an n-byte slice (cap n) that ends exactly at a PROT_NONE guard page, so that an
// unchecked read past its end faults (turned into a panic by debug.SetPanicOnFault in RunScript).
func guarded(n int) []byte {
	if n == 0 {
		return make([]byte, 0)
	}
	ps := syscall.Getpagesize()
	pages := (n+ps-1)/ps + 1
	mem, err := syscall.Mmap(-1, 0, pages*ps, syscall.PROT_READ|syscall.PROT_WRITE, syscall.MAP_ANON|syscall.MAP_PRIVATE)
	if err != nil {
		return make([]byte, n)
	}
	if err := syscall.Mprotect(mem[(pages-1)*ps:], syscall.PROT_NONE); err != nil {
		return make([]byte, n)
	}
	end := (pages - 1) * ps
	return mem[end-n : end : end]
}

// String returns a string of length n with arbitrary contents.
func String(n int) string { return string(Bytes(n)) }

// Fill overwrites p with arbitrary contents ("stale bytes of recycled memory").
func Fill(p []byte) {
	e := next("bytes")
	b, err := hex.DecodeString(e.V)
	if err != nil || len(b) != len(p) {
		panic(mismatch{fmt.Sprintf("fill: script has %d bytes, code asks %d", len(b), len(p))})
	}
	copy(p, b)
}

func Assume(c bool) {
	if !c {
		panic(assumeFail{})
	}
}

func Assert(c bool, label string) {
	if !c {
		panic(assertFail{label})
	}
}

// Reach is a vacuity witness.
func Reach(label string) {}

// Fail aborts the path as "engine does not support this" (used by fakes for unmodelled calls).
func Unsupported(what string) { panic(mismatch{"unsupported: " + what}) }

// Observe records a value; gosx evaluates the same expression under the model and the driver
// compares the two (translator validation).
func Observe(label string, v any) {
	obs = append(obs, label+"="+render(v))
}

func render(v any) string {
	switch x := v.(type) {
	case nil:
		return "nil"
	case bool:
		if x {
			return "1"
		}
		return "0"
	case int:
		return strconv.FormatUint(uint64(x), 10)
	case int8:
		return strconv.FormatUint(uint64(uint8(x)), 10)
	case int16:
		return strconv.FormatUint(uint64(uint16(x)), 10)
	case int32:
		return strconv.FormatUint(uint64(uint32(x)), 10)
	case int64:
		return strconv.FormatUint(uint64(x), 10)
	case uint:
		return strconv.FormatUint(uint64(x), 10)
	case uint8:
		return strconv.FormatUint(uint64(x), 10)
	case uint16:
		return strconv.FormatUint(uint64(x), 10)
	case uint32:
		return strconv.FormatUint(uint64(x), 10)
	case uint64:
		return strconv.FormatUint(x, 10)
	case float32:
		if x != x {
			return "nan"
		}
		return strconv.FormatUint(uint64(math.Float32bits(x)), 10)
	case float64:
		if x != x {
			return "nan"
		}
		return strconv.FormatUint(math.Float64bits(x), 10)
	case []byte:
		return "x" + hex.EncodeToString(x)
	case string:
		return "x" + hex.EncodeToString([]byte(x))
	case error:
		if x == nil {
			return "nil"
		}
		return "err"
	}
	return fmt.Sprintf("?%T", v)
}

// Within reports whether sub lies inside b (an empty sub is trivially inside).
func Within(sub []byte, b []byte) bool {
	if len(sub) == 0 {
		return true
	}
	if len(b) == 0 {
		return false
	}
	ps := uintptr(unsafe.Pointer(unsafe.SliceData(sub)))
	pb := uintptr(unsafe.Pointer(unsafe.SliceData(b)))
	return ps >= pb && ps+uintptr(len(sub)) <= pb+uintptr(len(b))
}

// WithinStr is Within for a zero-copy string view.
func WithinStr(s string, b []byte) bool {
	if len(s) == 0 {
		return true
	}
	if len(b) == 0 {
		return false
	}
	ps := uintptr(unsafe.Pointer(unsafe.StringData(s)))
	pb := uintptr(unsafe.Pointer(unsafe.SliceData(b)))
	return ps >= pb && ps+uintptr(len(s)) <= pb+uintptr(len(b))
}

// BytesSparse returns n bytes of which the first k and the last k are arbitrary and the middle is
// the fixed pattern byte(i*7+3) (used for payloads too large to be fully symbolic).
func BytesSparse(n, k int) []byte {
	if n <= 2*k {
		return Bytes(n)
	}
	e := next("bytes")
	b, err := hex.DecodeString(e.V)
	if err != nil || len(b) != 2*k {
		panic(mismatch{fmt.Sprintf("sparse: script has %d bytes, code asks %d", len(b), 2*k)})
	}
	out := make([]byte, n)
	for i := range out {
		out[i] = byte(i*7 + 3)
	}
	copy(out, b[:k])
	copy(out[n-k:], b[k:])
	return out
}

// Virtual returns a slice of length n whose contents are never inspected (the engine gives it a
// symbolic length and no backing store).
func Virtual(n int) []byte {
	if n < 0 {
		panic(assumeFail{})
	}
	return make([]byte, n)
}

// Symbolic reports whether the harness runs inside the symbolic executor (false natively).
func Symbolic() bool { return false }
